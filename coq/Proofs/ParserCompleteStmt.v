(** * ParserCompleteStmt: operators, statements and whole programs of the grammar parse to the
    prescribed tree (C07, continuing Proofs/ParserComplete.v). *)
From PQL Require Import Spec.Grammar Proofs.ParserSound Proofs.ParserSoundStmt Proofs.ParserReject Proofs.SplitSkip Proofs.ExprInd
  Proofs.TableFacts Proofs.ParserComplete Proofs.NoSemi.
From Coq Require Import Lia ZArith.
Local Open Scope list_scope.
Local Open Scope nat_scope.
Local Notation length := List.length (only parsing).

(** what follows an expression inside an operator: the end of the operator, a comma, `by`, `)` *)
Definition stop_hd (rest : list token) : Prop :=
  match rest with [] => True | t :: _ => tkind t = KComma \/ tkind t = KBy \/ tkind t = KRParen end.

Lemma stop_follows rest : stop_hd rest -> follows (-1) rest.
Proof.
  destruct rest as [|t r]; [trivial|]. cbn [stop_hd follows]. unfold not_cont.
  intros [H|[H|H]]; rewrite H; repeat split; discriminate.
Qed.

Lemma is_word_kw w w' sp t : kw_tok [w'] sp t -> is_word w t = str_eqb w' w.
Proof.
  intros (Hk & Hin & _). unfold is_word. rewrite (is_kind_true _ _ Hk). cbn [andb].
  destruct Hin as [<-|[]]. reflexivity.
Qed.

Lemma is_word_other w t : tkind t <> KIdentifier -> is_word w t = false.
Proof. intros H. unfold is_word. rewrite (is_kind_false _ _ H). reflexivity. Qed.

Lemma stop_not_ident t r : stop_hd (t :: r) -> tkind t <> KIdentifier.
Proof. cbn [stop_hd]. intros [H|[H|H]]; rewrite H; discriminate. Qed.

(** evaluate comparisons of keyword constants *)
Ltac eval_str_eqb :=
  repeat match goal with
  | |- context [str_eqb ?a ?b] =>
    let v := eval vm_compute in (str_eqb a b) in
    match v with true => idtac | false => idtac end;
    change (str_eqb a b) with v
  end.

Lemma kw_in1 w sp t : kw_tok [w] sp t -> tvalue t = w.
Proof. intros (_ & [H|[]] & _). symmetry. exact H. Qed.

(** no token of an expression is `=` *)
Definition no_assign (ts : list token) : Prop := Forall (fun t => tkind t <> KAssign) ts.

Lemma qual_no_assign ps ts : toks_qual ps ts -> no_assign ts.
Proof.
  induction 1 as [i t Hi|i t d r tr Hi Hd _ IH]; unfold no_assign in *.
  - constructor; [|constructor]. destruct Hi as (Hk & _). rewrite Hk. destruct (iquoted i); discriminate.
  - constructor; [destruct Hi as (Hk & _); rewrite Hk; destruct (iquoted i); discriminate|].
    constructor; [rewrite Hd; discriminate|exact IH].
Qed.

Ltac na :=
  match goal with
  | H : is_tok _ _ ?t |- tkind ?t <> _ => destruct H as [H _]; rewrite H; discriminate
  | H : ident_tok ?i ?t |- tkind ?t <> _ => destruct H as [H _]; rewrite H; destruct (iquoted i); discriminate
  | H : tkind ?t = _ |- tkind ?t <> _ => rewrite H; discriminate
  end.
Ltac fna := unfold no_assign in *; repeat first [ assumption | apply Forall_nil | apply Forall_cons | apply Forall_app; split | na ].

Lemma prec_not_assign op : (0 <= op_prec op)%Z -> op <> KAssign.
Proof. intros H ->. vm_compute in H. apply H. reflexivity. Qed.

Lemma expr_no_assign : (forall e ts, toks_expr e ts -> no_assign ts) /\ (forall l ts, toks_list l ts -> no_assign ts) /\ (forall l ts, toks_args l ts -> no_assign ts).
Proof.
  apply toks_expr_mutind; intros; try (fna; fail).
  - eapply qual_no_assign; eassumption.
  - fna. match goal with Hk : tkind ?t = ?k, Hor : ?k = KNumber \/ _ |- tkind ?t <> _ => rewrite Hk; destruct Hor; subst; discriminate end.
  - fna. match goal with Ht : is_tok ?op _ ?t, Hor : ?op = KPlus \/ _ |- tkind ?t <> _ => destruct Ht as [Ht _]; rewrite Ht; destruct Hor; subst; discriminate end.
  - fna. match goal with Ht : is_tok ?op _ ?t, Hp : (0 <= op_prec ?op)%Z |- tkind ?t <> _ => destruct Ht as [Ht _]; rewrite Ht; apply prec_not_assign; exact Hp end.
Qed.

Section CompleteStmt.
Variable srclen : nat.

Notation pexpr := (p_expr srclen).
Notation plist := (p_expr_list srclen).

Lemma pexpr_stop e used rest f : toks_expr e used -> gexpr e = true -> stop_hd rest -> 4 * length used + 4 <= f ->
  pexpr f (used ++ rest) = (Some e, rest, []).
Proof. intros Ht Hg Hr Hf. apply p_expr_complete; try assumption. apply stop_follows. exact Hr. Qed.

(** a keyword token follows the expression (asc, desc, nulls, on, with ...) *)
Lemma pexpr_kw e used ws sp t rest f : toks_expr e used -> gexpr e = true -> kw_tok ws sp t -> 4 * length used + 4 <= f ->
  pexpr f (used ++ t :: rest) = (Some e, t :: rest, []).
Proof.
  intros Ht Hg (Hk & _) Hf. apply p_expr_complete; try assumption. cbn [follows]. unfold not_cont. rewrite Hk.
  repeat split; discriminate.
Qed.

(** ** sort terms *)
Lemma nulls_stage (x : expr) asc aspan dflt nf nsp tn rest : toks_nulls dflt nf nsp tn -> stop_hd rest ->
  (let mk asc aspan nf nspan := option_map (fun x => mkSortTerm x asc aspan nf nspan) (Some x) in
   match tn ++ rest with
   | t :: r' =>
     if is_word w_nulls t then
       match r' with
       | t2 :: r'' =>
         if is_word w_first t2 then (mk asc aspan true (Some (tstart t, tend t2)), r'', [])
         else if is_word w_last t2 then (mk asc aspan false (Some (tstart t, tend t2)), r'', [])
         else (None, r', err_at (tstart t2))
       | [] => (None, [], err_at srclen)
       end
     else (mk asc aspan dflt None, tn ++ rest, [])
   | [] => (mk asc aspan dflt None, [], [])
   end) = (Some (mkSortTerm x asc aspan nf nsp), rest, @nil perr).
Proof.
  intros Hn Hr. cbn zeta. destruct Hn as [|t t2 Ht Ht2|t t2 Ht Ht2]; cbn [app].
  - destruct rest as [|t r]; [reflexivity|]. rewrite (is_word_other _ _ (stop_not_ident _ _ Hr)). reflexivity.
  - rewrite (is_word_kw _ _ _ _ Ht), (is_word_kw _ _ _ _ Ht2). eval_str_eqb. reflexivity.
  - rewrite (is_word_kw _ _ _ _ Ht), !(is_word_kw _ _ _ _ Ht2). eval_str_eqb. reflexivity.
Qed.

Lemma sort_term_complete t ts rest f : toks_sort_term t ts -> gsort_term t = true -> stop_hd rest ->
  4 * length ts + 4 <= f -> p_sort_term srclen f (ts ++ rest) = (Some t, rest, []).
Proof.
  intros Ht Hg Hr Hf. destruct Ht as [x asc asp dflt nf nsp tx ta tn Hx Hd Hn]. unfold gsort_term in Hg. cbn [st_x] in Hg.
  rewrite !app_length in Hf. unfold p_sort_term. rewrite <- !app_assoc.
  assert (HX : pexpr f (tx ++ ta ++ tn ++ rest) = (Some x, ta ++ tn ++ rest, [])).
  { destruct Hd as [|sp t Ht|sp t Ht]; cbn [app].
    - destruct Hn as [|t t2 Ht Ht2|t t2 Ht Ht2]; cbn [app].
      + apply pexpr_stop; try assumption. lia.
      + eapply pexpr_kw; try eassumption. lia.
      + eapply pexpr_kw; try eassumption. lia.
    - eapply pexpr_kw; try eassumption. lia.
    - eapply pexpr_kw; try eassumption. lia. }
  rewrite HX. cbn [no_err negb].
  destruct Hd as [|sp t Ht|sp t Ht]; cbn [app].
  - (* no direction *)
    destruct Hn as [|t t2 Ht Ht2|t t2 Ht Ht2]; cbn [app].
    + destruct rest as [|t r]; [reflexivity|]. rewrite !(is_word_other _ _ (stop_not_ident _ _ Hr)). reflexivity.
    + rewrite !(is_word_kw _ _ _ _ Ht), !(is_word_kw _ _ _ _ Ht2). eval_str_eqb. reflexivity.
    + rewrite !(is_word_kw _ _ _ _ Ht), !(is_word_kw _ _ _ _ Ht2). eval_str_eqb. reflexivity.
  - rewrite (is_word_kw _ _ _ _ Ht). eval_str_eqb. cbv iota.
    pose proof (nulls_stage x true (tok_span t) true nf nsp tn rest Hn Hr) as HN. cbn zeta in HN.
    destruct Ht as (_ & _ & <-). exact HN.
  - rewrite !(is_word_kw _ _ _ _ Ht). eval_str_eqb. cbv iota.
    pose proof (nulls_stage x false (tok_span t) false nf nsp tn rest Hn Hr) as HN. cbn zeta in HN.
    destruct Ht as (_ & _ & <-). exact HN.
Qed.

(** ** row counts *)
Lemma row_count_complete x tx rest f : toks_expr x tx -> grow_count x = true -> stop_hd rest ->
  4 * length tx + 4 <= f -> p_row_count srclen f (tx ++ rest) = (Some x, rest, []).
Proof.
  intros Hx Hg Hr Hf. unfold grow_count in Hg. apply andb_prop in Hg as [Hg Hi]. unfold p_row_count.
  rewrite (pexpr_stop _ _ _ _ Hx Hg Hr Hf). cbn [no_err negb]. destruct x; try reflexivity. rewrite Hi. reflexivity.
Qed.

(** ** extend / summarize columns *)
Lemma ext_col_complete c ts rest f : toks_ext_col c ts -> gext_col c = true -> stop_hd rest ->
  4 * length ts + 4 <= f -> p_ext_col srclen f (ts ++ rest) = (Some c, rest, []).
Proof.
  intros Ht Hg Hr Hf. unfold gext_col in Hg. destruct Ht as [i asp x ti ta tx Hi Ha Hx|x tx Hx]; cbn [ec_x] in Hg.
  - cbn [length] in Hf. unfold p_ext_col. cbn [app]. rewrite (p_ident_complete srclen _ _ _ Hi).
    destruct Ha as [Hak Has]. rewrite (is_kind_true _ _ Hak).
    rewrite (pexpr_stop x tx rest f Hx Hg Hr ltac:(lia)). cbn [when_ok no_err option_map opaque map]. subst. reflexivity.
  - unfold p_ext_col.
    assert (Hnamed : match p_ident srclen (tx ++ rest) with
                     | (Some i, a :: r, _) => if is_kind KAssign a then Some (i, tok_span a, r) else None
                     | _ => None end = None).
    { pose proof (proj1 expr_no_assign _ _ Hx) as Hna. pose proof (toks_expr_nonempty _ _ Hx) as Hne.
      destruct tx as [|t r]; [contradiction|]. cbn [app]. unfold p_ident.
      destruct (is_kind KIdentifier t || is_kind KQuotedIdentifier t); [|reflexivity].
      destruct r as [|a r']; cbn [app].
      - destruct rest as [|a r']; [reflexivity|]. rewrite is_kind_false; [reflexivity|].
        cbn [stop_hd] in Hr. destruct Hr as [H|[H|H]]; rewrite H; discriminate.
      - rewrite is_kind_false; [reflexivity|]. unfold no_assign in Hna. apply Forall_inv_tail in Hna. apply Forall_inv in Hna. exact Hna. }
    rewrite Hnamed. rewrite (pexpr_stop _ _ _ _ Hx Hg Hr Hf). reflexivity.
Qed.

Lemma comma_stop c r : tkind c = KComma -> stop_hd (c :: r).
Proof. intros H. cbn [stop_hd]. left. exact H. Qed.
Lemma by_stop c r : tkind c = KBy -> stop_hd (c :: r).
Proof. intros H. cbn [stop_hd]. right. left. exact H. Qed.
Lemma rparen_stop c r : tkind c = KRParen -> stop_hd (c :: r).
Proof. intros H. cbn [stop_hd]. right. right. exact H. Qed.

(** ** comma-separated lists inside operators (to the end of the operator) *)
Lemma sort_terms_complete f terms tt : toks_sep toks_sort_term terms tt -> forallb gsort_term terms = true ->
  forall n, length tt < n -> 4 * length tt + 4 <= f -> p_sort_terms srclen n f tt = (Some terms, [], []).
Proof.
  induction 1 as [a ta Ha|a ta c r tr Ha Hc Hr IH]; intros Hg n Hn Hf; cbn [forallb] in Hg; apply andb_prop in Hg as [Hga Hgr];
    (destruct n as [|n]; [lia|]); cbn [p_sort_terms].
  - pose proof (sort_term_complete a ta [] f Ha Hga I Hf) as E. rewrite app_nil_r in E. rewrite E. reflexivity.
  - rewrite app_length in Hf, Hn. cbn [length] in Hf, Hn.
    rewrite (sort_term_complete a ta (c :: tr) f Ha Hga (comma_stop _ _ Hc) ltac:(lia)). cbn [no_err negb].
    rewrite (is_kind_true _ _ Hc). rewrite (IH Hgr n ltac:(lia) ltac:(lia)). reflexivity.
Qed.

Lemma extend_cols_complete f cols tc : toks_sep toks_ext_col cols tc -> forallb gext_col cols = true ->
  forall n, length tc < n -> 4 * length tc + 4 <= f -> p_extend_cols srclen n f tc = (Some cols, [], []).
Proof.
  induction 1 as [a ta Ha|a ta c r tr Ha Hc Hr IH]; intros Hg n Hn Hf; cbn [forallb] in Hg; apply andb_prop in Hg as [Hga Hgr];
    (destruct n as [|n]; [lia|]); cbn [p_extend_cols].
  - pose proof (ext_col_complete a ta [] f Ha Hga I Hf) as E. rewrite app_nil_r in E. rewrite E. reflexivity.
  - rewrite app_length in Hf, Hn. cbn [length] in Hf, Hn.
    rewrite (ext_col_complete a ta (c :: tr) f Ha Hga (comma_stop _ _ Hc) ltac:(lia)). cbn [no_err negb].
    rewrite (is_kind_true _ _ Hc). rewrite (IH Hgr n ltac:(lia) ltac:(lia)). reflexivity.
Qed.

Lemma group_cols_complete f cols tc : toks_sep toks_ext_col cols tc -> forallb gext_col cols = true ->
  forall n, length tc < n -> 4 * length tc + 4 <= f -> p_group_cols srclen n f tc = (Some cols, [], []).
Proof.
  induction 1 as [a ta Ha|a ta c r tr Ha Hc Hr IH]; intros Hg n Hn Hf; cbn [forallb] in Hg; apply andb_prop in Hg as [Hga Hgr];
    (destruct n as [|n]; [lia|]); cbn [p_group_cols].
  - pose proof (ext_col_complete a ta [] f Ha Hga I Hf) as E. rewrite app_nil_r in E. rewrite E. reflexivity.
  - rewrite app_length in Hf, Hn. cbn [length] in Hf, Hn.
    rewrite (ext_col_complete a ta (c :: tr) f Ha Hga (comma_stop _ _ Hc) ltac:(lia)). cbn [no_err negb].
    rewrite (is_kind_true _ _ Hc). rewrite (IH Hgr n ltac:(lia) ltac:(lia)). reflexivity.
Qed.

Lemma project_cols_complete f cols tc : toks_sep toks_proj_col cols tc -> forallb gproj_col cols = true ->
  forall n, length tc < n -> 4 * length tc + 4 <= f -> p_project_cols srclen n f tc = (Some cols, [], []).
Proof.
  induction 1 as [a ta Ha|a ta c r tr Ha Hc Hr IH]; intros Hg n Hn Hf; cbn [forallb] in Hg; apply andb_prop in Hg as [Hga Hgr];
    (destruct n as [|n]; [lia|]); cbn [p_project_cols].
  - destruct Ha as [i ti Hi|i asp x ti ta tx Hi Has Hx].
    + rewrite (p_ident_complete srclen _ _ _ Hi). reflexivity.
    + cbn [app]. rewrite (p_ident_complete srclen _ _ _ Hi). destruct Has as [Hak Hasp].
      assert (Hnc : is_kind KComma ta = false) by (apply is_kind_false; rewrite Hak; discriminate).
      rewrite Hnc, (is_kind_true _ _ Hak). unfold gproj_col in Hga. cbn [pc_x] in Hga. cbn [length] in Hf.
      pose proof (pexpr_stop x tx [] f Hx Hga I ltac:(lia)) as E. rewrite app_nil_r in E. rewrite E. cbn [no_err negb option_map]. subst. reflexivity.
  - rewrite app_length in Hf, Hn. cbn [length] in Hf, Hn.
    destruct Ha as [i ti Hi|i asp x ti ta tx Hi Has Hx].
    + cbn [app]. rewrite (p_ident_complete srclen _ _ _ Hi). rewrite (is_kind_true _ _ Hc).
      cbn [length] in Hf, Hn. rewrite (IH Hgr n ltac:(lia) ltac:(lia)). reflexivity.
    + cbn [app]. rewrite (p_ident_complete srclen _ _ _ Hi). destruct Has as [Hak Hasp].
      assert (Hnc : is_kind KComma ta = false) by (apply is_kind_false; rewrite Hak; discriminate).
      rewrite Hnc, (is_kind_true _ _ Hak). unfold gproj_col in Hga. cbn [pc_x] in Hga. cbn [length] in Hf, Hn.
      rewrite (pexpr_stop x tx (c :: tr) f Hx Hga (comma_stop _ _ Hc) ltac:(lia)). cbn [no_err negb option_map].
      rewrite (is_kind_true _ _ Hc). rewrite (IH Hgr n ltac:(lia) ltac:(lia)). cbn [when_ok no_err opt_map2]. subst. reflexivity.
Qed.

(** ** the first loop of summarize *)
Lemma pexpr_by b r f : tkind b = KBy -> 4 <= f -> pexpr f (b :: r) = (None, b :: r, nf_at (tstart b)).
Proof.
  intros Hb Hf. destruct f as [|[|[|[|f]]]]; try lia.
  rewrite p_expr_S, p_unary_S.
  rewrite (is_kind_false KPlus b) by (rewrite Hb; discriminate). rewrite (is_kind_false KMinus b) by (rewrite Hb; discriminate). cbn [orb].
  rewrite p_primary_S, p_inner_S.
  rewrite (is_kind_false KNumber b) by (rewrite Hb; discriminate). rewrite (is_kind_false KString b) by (rewrite Hb; discriminate).
  rewrite (is_kind_false KIdentifier b) by (rewrite Hb; discriminate). rewrite (is_kind_false KQuotedIdentifier b) by (rewrite Hb; discriminate).
  rewrite (is_kind_false KLParen b) by (rewrite Hb; discriminate). reflexivity.
Qed.

Lemma ext_col_by b r f : tkind b = KBy -> 4 <= f -> exists c e, p_ext_col srclen f (b :: r) = (c, b :: r, e) /\ is_nf e = true.
Proof.
  intros Hb Hf. unfold p_ext_col, p_ident.
  rewrite (is_kind_false KIdentifier b) by (rewrite Hb; discriminate). rewrite (is_kind_false KQuotedIdentifier b) by (rewrite Hb; discriminate).
  cbn [orb]. rewrite (pexpr_by _ _ _ Hb Hf). eexists _, _. split; reflexivity.
Qed.

Lemma summarize_cols_by f b r n ac : tkind b = KBy -> 4 <= f -> 0 < n ->
  p_summarize_cols srclen n f ac (b :: r) = (Some [], b :: r, [], false, ac).
Proof.
  intros Hb Hf Hn. destruct n as [|n]; [lia|]. cbn [p_summarize_cols].
  destruct (ext_col_by b r f Hb Hf) as (c & e & -> & ->). reflexivity.
Qed.

Lemma summarize_cols_complete f cols tc : toks_sep toks_ext_col cols tc -> forallb gext_col cols = true ->
  forall n ac, length tc < n -> 4 * length tc + 4 <= f ->
    p_summarize_cols srclen n f ac tc = (Some cols, [], [], true, false) /\
    (forall b r, tkind b = KBy -> p_summarize_cols srclen n f ac (tc ++ b :: r) = (Some cols, b :: r, [], false, false)) /\
    (length tc + 1 < n -> forall c b r, tkind c = KComma -> tkind b = KBy -> p_summarize_cols srclen n f ac (tc ++ c :: b :: r) = (Some cols, b :: r, [], false, true)).
Proof.
  induction 1 as [a ta Ha|a ta c r tr Ha Hc Hr IH]; intros Hg n ac Hn Hf; cbn [forallb] in Hg; apply andb_prop in Hg as [Hga Hgr];
    (destruct n as [|n]; [lia|]); cbn [p_summarize_cols].
  - split; [|split].
    + pose proof (ext_col_complete a ta [] f Ha Hga I Hf) as E. rewrite app_nil_r in E. rewrite E. reflexivity.
    + intros b r Hb. rewrite (ext_col_complete a ta (b :: r) f Ha Hga (by_stop _ _ Hb) Hf). cbn [is_nf existsb no_err negb].
      rewrite (is_kind_false KComma b) by (rewrite Hb; discriminate). reflexivity.
    + intros Hn2 c b r Hc Hb. rewrite (ext_col_complete a ta (c :: b :: r) f Ha Hga (comma_stop _ _ Hc) Hf). cbn [is_nf existsb no_err negb].
      rewrite (is_kind_true _ _ Hc). rewrite (summarize_cols_by f b r n true Hb ltac:(lia) ltac:(lia)). reflexivity.
  - rewrite app_length in Hf, Hn. cbn [length] in Hf, Hn.
    destruct (IH Hgr n true ltac:(lia) ltac:(lia)) as (I1 & I2 & I3).
    assert (E : forall rest, p_ext_col srclen f (ta ++ c :: tr ++ rest) = (Some a, c :: tr ++ rest, [])).
    { intros rest. apply ext_col_complete; try assumption; [apply comma_stop; exact Hc|lia]. }
    split; [|split].
    + specialize (E []). rewrite app_nil_r in E. rewrite E. cbn [is_nf existsb no_err negb]. rewrite (is_kind_true _ _ Hc), I1. reflexivity.
    + intros b r0 Hb. rewrite <- app_assoc. cbn [app]. rewrite E. cbn [is_nf existsb no_err negb]. rewrite (is_kind_true _ _ Hc), (I2 b r0 Hb). reflexivity.
    + intros Hn2 c0 b r0 Hc0 Hb. rewrite app_length in Hn2. cbn [length] in Hn2. rewrite <- app_assoc. cbn [app]. rewrite E. cbn [is_nf existsb no_err negb].
      rewrite (is_kind_true _ _ Hc), (I3 ltac:(lia) c0 b r0 Hc0 Hb). reflexivity.
Qed.

(** ** render properties *)
Lemma render_prop_complete p tp rest f : toks_render_prop p tp -> grender_prop p = true -> stop_hd rest ->
  4 * length tp + 4 <= f -> p_render_prop srclen f (tp ++ rest) = (Some p, rest, []).
Proof.
  intros Ht Hg Hr Hf. destruct Ht as [i asp x ti ta tx Hi Ha Hx]. unfold grender_prop in Hg. cbn [rp_value] in Hg. cbn [length] in Hf.
  unfold p_render_prop. cbn [app]. rewrite (p_ident_complete srclen _ _ _ Hi). destruct Ha as [Hak Has]. rewrite (is_kind_true _ _ Hak).
  rewrite (pexpr_stop x tx rest f Hx Hg Hr ltac:(lia)). cbn [no_err negb option_map]. subst. reflexivity.
Qed.

Lemma render_props_complete f props tp : toks_sep toks_render_prop props tp -> forallb grender_prop props = true ->
  forall n tr rest, tkind tr = KRParen -> length tp < n -> 4 * length tp + 4 <= f ->
    p_render_props srclen n f (tp ++ tr :: rest) = (Some (props, tok_span tr), rest, []).
Proof.
  induction 1 as [a ta Ha|a ta c r tr0 Ha Hc Hr IH]; intros Hg n tr rest Htr Hn Hf; cbn [forallb] in Hg; apply andb_prop in Hg as [Hga Hgr];
    (destruct n as [|n]; [lia|]); cbn [p_render_props].
  - rewrite (render_prop_complete a ta (tr :: rest) f Ha Hga (rparen_stop _ _ Htr) Hf). cbn [no_err negb].
    rewrite (is_kind_true _ _ Htr). reflexivity.
  - rewrite app_length in Hf, Hn. cbn [length] in Hf, Hn. rewrite <- app_assoc. cbn [app].
    rewrite (render_prop_complete a ta (c :: tr0 ++ tr :: rest) f Ha Hga (comma_stop _ _ Hc) ltac:(lia)). cbn [no_err negb].
    rewrite (is_kind_false KRParen c) by (rewrite Hc; discriminate). rewrite (is_kind_true _ _ Hc).
    rewrite (IH Hgr n tr rest Htr ltac:(lia) ltac:(lia)). reflexivity.
Qed.

(** ** operators *)
Lemma p_operator_join f pipe name ts : tvalue name = w_join ->
  p_operator srclen (S f) pipe name ts =
    match ts with
    | [] => (None, [], err_at srclen, true)
    | t0 :: r0 =>
      if is_word w_kind t0 then
        match r0 with
        | a :: r1 =>
          if is_kind KAssign a then
            match r1 with
            | fl :: r2 =>
              if is_kind KIdentifier fl then
                after_kind srclen f pipe (tok_span name) (tok_span t0) (tok_span a) (Some (mk_ident fl)) r2
                           (if is_join_type (tvalue fl) then [] else err_at (tstart fl))
              else (None, r2, err_at (tstart fl), true)
            | [] => (None, [], err_at srclen, true)
            end
          else (None, r1, err_at (tstart a), true)
        | [] => (None, [], err_at srclen, true)
        end
      else after_kind srclen f pipe (tok_span name) None None None ts []
    end.
Proof. intros Hv. rewrite p_operator_S. cbv zeta. rewrite Hv. reflexivity. Qed.

Lemma after_kind_complete f pipe kw ksp kasp flavor tl rsrc tsr rops tro tr ton tc conds osp :
  p_tabular srclen f (tsr :: tro) = (Some (mkTab rsrc rops), [], []) ->
  tkind tl = KLParen -> ident_tok rsrc tsr -> toks_ops rops tro -> tkind tr = KRParen -> kw_tok [w_on] osp ton ->
  toks_list conds tc -> forallb gexpr conds = true -> 4 * length tc + 5 <= f ->
  after_kind srclen f pipe kw ksp kasp flavor (tl :: (tsr :: tro) ++ tr :: ton :: tc) [] =
    (Some (OJoin pipe kw ksp kasp flavor (tok_span tl) rsrc rops (tok_span tr) osp conds), [], [], true).
Proof.
  intros Htab Hl Hsrc Hops Hr Hon Hc Hg Hf. unfold after_kind. rewrite (is_kind_true _ _ Hl).
  rewrite (split_at_closerP KRParen (tsr :: tro) tr (ton :: tc) (or_introl eq_refl)); [| |exact Hr].
  2:{ change (tsr :: tro) with ([tsr] ++ tro). apply skipsP_app; [|eapply ops_skipsP; exact Hops].
      apply skips0_P, skips0_tok. destruct Hsrc as (Hk & _). rewrite Hk. destruct (iquoted rsrc); unfold plain_kind; repeat split; discriminate. }
  rewrite Htab. cbn [opaque map end_split app]. rewrite (is_kind_true _ _ Hr).
  rewrite (is_word_kw _ _ _ _ Hon). eval_str_eqb. cbv iota.
  pose proof (p_expr_list_complete srclen conds tc [] f Hc Hg (or_introl eq_refl) Hf) as E. rewrite app_nil_r in E. rewrite E.
  cbn [opaque map app when_ok no_err opt_map2 tsrc tops]. destruct Hon as (_ & _ & <-). reflexivity.
Qed.

Definition P_op (o : operator) (ts : list token) : Prop := gop o = true ->
  exists p n body, ts = p :: n :: body /\ tkind p = KPipe /\ tkind n = KIdentifier /\
    forall f, 4 * length body + 10 <= f -> p_operator srclen f (tok_span p) n body = (Some o, [], [], true).

Definition P_ops (os : list operator) (ts : list token) : Prop := forallb gop os = true ->
  forall f, 4 * length ts + 6 <= f -> p_operators srclen f ts = (Some os, [], []).

Ltac start_op Hp Hn :=
  let Hpk := fresh "Hpk" in let Hps := fresh "Hps" in
  destruct Hp as [Hpk Hps];
  eexists _, _, _; split; [reflexivity|]; split; [exact Hpk|]; split; [apply Hn|];
  intros f Hf; (destruct f as [|f]; [lia|]).

Ltac dispatch Hv := rewrite p_operator_S; cbv zeta; rewrite Hv; eval_str_eqb; cbn [orb]; cbv iota.

Lemma kw_in2 a b sp t : kw_tok [a; b] sp t -> tvalue t = a \/ tvalue t = b.
Proof. intros (_ & [H|[H|[]]] & _); [left|right]; symmetry; exact H. Qed.

Lemma tabular_of_ops f rsrc tsrc rops tro : ident_tok rsrc tsrc -> P_ops rops tro -> forallb gop rops = true ->
  4 * length tro + 7 <= f -> p_tabular srclen f (tsrc :: tro) = (Some (mkTab rsrc rops), [], []).
Proof.
  intros Hs HP Hg Hf. destruct f as [|f]; [lia|]. rewrite p_tabular_S, (p_ident_complete srclen _ _ _ Hs).
  rewrite (HP Hg f ltac:(lia)). reflexivity.
Qed.

Lemma op_complete : (forall o ts, toks_op o ts -> P_op o ts) /\ (forall l ts, toks_ops l ts -> P_ops l ts).
Proof.
  apply toks_op_mutind.
  - (* count *) intros psp ksp p n Hp Hn _. start_op Hp Hn. dispatch (kw_in1 _ _ _ Hn).
    destruct Hn as (_ & _ & <-). subst. reflexivity.
  - (* where / filter *) intros psp ksp x p n tx Hp Hn Hx Hg. cbn [gop] in Hg. start_op Hp Hn.
    pose proof (pexpr_stop x tx [] f Hx Hg I ltac:(lia)) as E. rewrite app_nil_r in E.
    destruct (kw_in2 _ _ _ _ Hn) as [Hv|Hv]; dispatch Hv; rewrite E; destruct Hn as (_ & _ & <-); subst; reflexivity.
  - (* sort / order *) intros psp terms p n b tt Hp Hn Hb Ht Hg. cbn [gop] in Hg. start_op Hp Hn. cbn [length] in Hf.
    pose proof (sort_terms_complete f terms tt Ht Hg (S (length (b :: tt))) ltac:(cbn [length]; lia) ltac:(lia)) as E.
    destruct (kw_in2 _ _ _ _ Hn) as [Hv|Hv]; dispatch Hv; rewrite (is_kind_true _ _ Hb), E; subst; reflexivity.
  - (* take / limit *) intros psp ksp x p n tx Hp Hn Hx Hg. cbn [gop] in Hg. start_op Hp Hn.
    pose proof (row_count_complete x tx [] f Hx Hg I ltac:(lia)) as E. rewrite app_nil_r in E.
    destruct (kw_in2 _ _ _ _ Hn) as [Hv|Hv]; dispatch Hv; rewrite E; destruct Hn as (_ & _ & <-); subst; reflexivity.
  - (* top *) intros psp ksp x bsp col p n tx b tc Hp Hn Hx Hb Hc Hg. cbn [gop] in Hg. apply andb_prop in Hg as [Hgx Hgc]. start_op Hp Hn.
    rewrite app_length in Hf. cbn [length] in Hf. destruct Hb as [Hbk Hbs].
    pose proof (row_count_complete x tx (b :: tc) f Hx Hgx (by_stop _ _ Hbk) ltac:(lia)) as E.
    pose proof (sort_term_complete col tc [] f Hc Hgc I ltac:(lia)) as E2. rewrite app_nil_r in E2.
    dispatch (kw_in1 _ _ _ Hn). rewrite E. cbn [no_err negb]. rewrite (is_kind_true _ _ Hbk), E2.
    destruct Hn as (_ & _ & <-). subst. reflexivity.
  - (* project *) intros psp ksp cols p n tc Hp Hn Hc Hg. cbn [gop] in Hg. start_op Hp Hn.
    pose proof (project_cols_complete f cols tc Hc Hg (S (length tc)) ltac:(lia) ltac:(lia)) as E.
    dispatch (kw_in1 _ _ _ Hn). rewrite E. destruct Hn as (_ & _ & <-). subst. reflexivity.
  - (* extend *) intros psp ksp cols p n tc Hp Hn Hc Hg. cbn [gop] in Hg. start_op Hp Hn.
    pose proof (extend_cols_complete f cols tc Hc Hg (S (length tc)) ltac:(lia) ltac:(lia)) as E.
    dispatch (kw_in1 _ _ _ Hn). rewrite E. destruct Hn as (_ & _ & <-). subst. reflexivity.
  - (* summarize *) intros psp ksp cols bsp gs p n body Hp Hn Hs Hg. cbn [gop] in Hg. apply andb_prop in Hg as [Hgc Hgg]. start_op Hp Hn.
    destruct Hs as [cols tc Hc|bsp gs b tg Hb Hgs|cols bsp gs tc b tg Hc Hb Hgs|cols bsp gs tc c b tg Hc Hcm Hb Hgs].
    + destruct (summarize_cols_complete f cols tc Hc Hgc (S (length tc)) false ltac:(lia) ltac:(lia)) as (E & _ & _).
      dispatch (kw_in1 _ _ _ Hn). rewrite E. destruct Hn as (_ & _ & <-). subst. reflexivity.
    + destruct Hb as [Hbk Hbs]. cbn [length] in Hf.
      pose proof (group_cols_complete f gs tg Hgs Hgg (S (length (b :: tg))) ltac:(cbn [length]; lia) ltac:(lia)) as E2.
      dispatch (kw_in1 _ _ _ Hn). rewrite summarize_cols_by by (exact Hbk || lia).
      cbn [length Nat.eqb orb] in *. rewrite (is_kind_true _ _ Hbk), E2. destruct Hn as (_ & _ & <-). subst. reflexivity.
    + destruct Hb as [Hbk Hbs]. rewrite app_length in Hf. cbn [length] in Hf.
      pose proof (group_cols_complete f gs tg Hgs Hgg (S (length (tc ++ b :: tg))) ltac:(rewrite app_length; cbn [length]; lia) ltac:(lia)) as E2.
      destruct (summarize_cols_complete f cols tc Hc Hgc (S (length (tc ++ b :: tg))) false ltac:(rewrite app_length; cbn [length]; lia) ltac:(lia)) as (_ & E & _).
      dispatch (kw_in1 _ _ _ Hn). rewrite (E b tg Hbk). rewrite (is_kind_true _ _ Hbk), E2. destruct Hn as (_ & _ & <-). subst. reflexivity.
    + destruct Hb as [Hbk Hbs]. rewrite app_length in Hf. cbn [length] in Hf.
      pose proof (group_cols_complete f gs tg Hgs Hgg (S (length (tc ++ c :: b :: tg))) ltac:(rewrite app_length; cbn [length]; lia) ltac:(lia)) as E2.
      destruct (summarize_cols_complete f cols tc Hc Hgc (S (length (tc ++ c :: b :: tg))) false ltac:(rewrite app_length; cbn [length]; lia) ltac:(lia)) as (_ & _ & E).
      dispatch (kw_in1 _ _ _ Hn). rewrite (E ltac:(rewrite app_length; cbn [length]; lia) c b tg Hcm Hbk). rewrite (is_kind_true _ _ Hbk), E2.
      destruct Hn as (_ & _ & <-). subst. reflexivity.
  - (* join *) intros psp ksp kindsp kasp flavor lsp rsrc rops rsp osp conds p n tk tl tsrc tro tr ton tc Hp Hn Hk Hl Hsrc Hro IHro Hr Hon Hc Hne Hg.
    cbn [gop] in Hg. apply andb_prop in Hg as [Hgo Hgc]. start_op Hp Hn.
    destruct Hl as [Hlk Hls]. destruct Hr as [Hrk Hrs].
    rewrite !app_length in Hf. cbn [length] in Hf. rewrite app_length in Hf. cbn [length] in Hf.
    pose proof (tabular_of_ops f rsrc tsrc rops tro Hsrc IHro Hgo ltac:(lia)) as Htab.
    pose proof (fun ks ka fl => after_kind_complete f (tok_span p) (tok_span n) ks ka fl tl rsrc tsrc rops tro tr ton tc conds osp
                  Htab Hlk Hsrc Hro Hrk Hon Hc Hgc ltac:(lia)) as HA.
    rewrite (p_operator_join f _ n _ (kw_in1 _ _ _ Hn)).
    destruct Hk as [|ksp0 asp fl tkd ta tf Hkd Hta Hfl Hq Hjt]; cbn [app].
    + rewrite (is_word_other w_kind tl) by (rewrite Hlk; discriminate). rewrite HA.
      destruct Hn as (_ & _ & <-). subst. reflexivity.
    + rewrite (is_word_kw _ _ _ _ Hkd). eval_str_eqb. cbv iota. destruct Hta as [Htak Htas]. rewrite (is_kind_true _ _ Htak).
      pose proof Hfl as (Hfk & Hfv & Hfs). rewrite Hq in Hfk. rewrite (is_kind_true _ _ Hfk). rewrite Hfv, Hjt.
      rewrite HA. rewrite (mk_ident_eq _ _ Hfl). destruct Hn as (_ & _ & <-). destruct Hkd as (_ & _ & <-). subst. reflexivity.
  - (* as *) intros psp ksp i p n ti Hp Hn Hi _. start_op Hp Hn. dispatch (kw_in1 _ _ _ Hn).
    rewrite (p_ident_complete srclen _ _ _ Hi). destruct Hn as (_ & _ & <-). subst. reflexivity.
  - (* render *) intros psp ksp chart wsp lsp props rsp p n tch tw Hp Hn Hch Hw Hg. cbn [gop] in Hg. start_op Hp Hn.
    dispatch (kw_in1 _ _ _ Hn). rewrite (p_ident_complete srclen _ _ _ Hch).
    destruct Hw as [|wsp lsp props rsp twt tl tp tr Hwt Hl Hprops Hr].
    + destruct Hn as (_ & _ & <-). subst. reflexivity.
    + destruct Hl as [Hlk Hls]. destruct Hr as [Hrk Hrs]. cbn [length] in Hf. rewrite app_length in Hf. cbn [length] in Hf.
      rewrite (is_word_kw _ _ _ _ Hwt). eval_str_eqb. cbv iota. rewrite (is_kind_true _ _ Hlk).
      rewrite (render_props_complete f props tp Hprops Hg) by first [exact Hrk | lia | cbn [length]; rewrite app_length; cbn [length]; lia].
      cbn [when_ok no_err option_map fst snd]. destruct Hn as (_ & _ & <-). destruct Hwt as (_ & _ & <-). subst. reflexivity.
  - (* no operators *) intros _ f Hf. destruct f as [|f]; [cbn [length] in Hf; lia|]. rewrite p_operators_S. reflexivity.
  - (* an operator and the rest *) intros o to os tos Ho IHo Hos IHos Hg f Hf. cbn [forallb] in Hg. apply andb_prop in Hg as [Hgo Hgs].
    destruct (IHo Hgo) as (p & n & body & -> & Hpk & Hnk & HO). rewrite app_length in Hf. cbn [length] in Hf.
    destruct f as [|f]; [lia|]. rewrite p_operators_S. cbn [app]. rewrite (is_kind_true _ _ Hpk).
    assert (Hsk : skips0 (n :: body)).
    { destruct (proj1 op_skips _ _ Ho) as (p' & body' & E & _ & Hb). injection E as <- <-. exact Hb. }
    assert (Hsplit : split KPipe (n :: body ++ tos) = (n :: body, tos)).
    { destruct (ops_head _ _ Hos) as [(_ & ->)|(p' & r & -> & Hp')].
      - rewrite app_nil_r. apply split_to_end; [unfold search_ok; tauto|exact Hsk].
      - change (n :: body ++ p' :: r) with ((n :: body) ++ p' :: r). apply split_at_pipe; assumption. }
    rewrite Hsplit. rewrite (is_kind_true _ _ Hnk). cbn [negb].
    rewrite (HO f ltac:(lia)). cbn [app end_split]. rewrite (IHos Hgs f ltac:(lia)). reflexivity.
Qed.

(** ** statements *)
Lemma tabular_complete t ts f : toks_tab t ts -> forallb gop (tops t) = true -> 4 * length ts + 6 <= f ->
  p_tabular srclen f ts = (Some t, [], []).
Proof.
  intros (tsrc0 & tro & -> & Hs & Ho) Hg Hf. cbn [length] in Hf. destruct t as [src ops]. cbn [tsrc tops] in *.
  apply tabular_of_ops; try assumption; [apply (proj2 op_complete); exact Ho|lia].
Qed.

Lemma p_let_nf_other t r f : is_word w_let t = false -> p_let srclen f (t :: r) = (None, t :: r, nf_at (tstart t)).
Proof. intros H. unfold p_let. rewrite H. reflexivity. Qed.

Lemma statement_complete s ts f : toks_stmt s ts -> gstmt s = true -> 4 * length ts + 6 <= f ->
  p_statement srclen f ts = (Some s, [], []).
Proof.
  intros Ht Hg Hf. destruct Ht as [ksp i asp x tk ti ta tx Hk Hi Ha Hx|t ts Htab].
  - cbn [gstmt] in Hg. cbn [length] in Hf. unfold p_statement, p_let.
    rewrite (is_word_kw _ _ _ _ Hk). eval_str_eqb. cbv iota. rewrite (p_ident_complete srclen _ _ _ Hi).
    destruct Ha as [Hak Has]. rewrite (is_kind_true _ _ Hak).
    pose proof (pexpr_stop x tx [] f Hx Hg I ltac:(lia)) as E. rewrite app_nil_r in E. rewrite E.
    cbn [when_ok no_err option_map opaque map is_nf existsb negb]. destruct Hk as (_ & _ & <-). subst. reflexivity.
  - cbn [gstmt] in Hg. apply andb_prop in Hg as [Hnl Hg]. pose proof Htab as (tsrc0 & tro & -> & Hs & Ho).
    unfold p_statement. rewrite p_let_nf_other.
    + cbn [is_nf existsb nf_at enf orb negb]. rewrite (tabular_complete t _ f Htab Hg Hf). reflexivity.
    + unfold is_word, is_let_word in *. destruct Hs as (Hk & Hv & _). unfold is_kind. rewrite Hk, Hv.
      destruct (iquoted (tsrc t)); [reflexivity|]. cbn [negb andb] in Hnl. cbn [kind_eqb]. apply Bool.negb_true_iff in Hnl. rewrite Hnl. reflexivity.
Qed.

Lemma split_semi_all ts : all_nosemi ts -> split_semi ts = (ts, []).
Proof.
  induction 1 as [|t r Ht _ IH]; [reflexivity|]. cbn [split_semi]. rewrite (is_kind_false _ _ Ht), IH. reflexivity.
Qed.

Lemma split_semi_at ts semi rest : all_nosemi ts -> tkind semi = KSemi -> split_semi (ts ++ semi :: rest) = (ts, semi :: rest).
Proof.
  intros H Hs. induction H as [|t r Ht _ IH]; cbn [app split_semi].
  - rewrite (is_kind_true _ _ Hs). reflexivity.
  - rewrite (is_kind_false _ _ Ht), IH. reflexivity.
Qed.

Lemma statement_empty f : 1 <= f -> p_statement srclen f [] = (None, [], nf_at srclen).
Proof. intros Hf. destruct f as [|f]; [lia|]. unfold p_statement. cbn [p_let is_nf existsb nf_at enf orb negb]. rewrite p_tabular_S. reflexivity. Qed.

Theorem statements_complete ss ts : toks_prog ss ts -> gprog ss = true ->
  forall n f, length ts < n -> 4 * length ts + 6 <= f -> p_statements srclen n f ts [] = (Some ss, []).
Proof.
  induction 1 as [|semi ss rest Hsemi Hp IH|s ts Hs|s ts semi ss rest Hs Hsemi Hp IH]; intros Hg n f Hn Hf;
    (destruct n as [|n]; [lia|]); cbn [p_statements].
  - cbn [split_semi]. rewrite statement_empty by lia. reflexivity.
  - cbn [split_semi]. rewrite (is_kind_true _ _ Hsemi). rewrite statement_empty by lia. cbn [is_nf existsb nf_at enf orb].
    cbn [length] in Hn, Hf. rewrite (IH Hg n f ltac:(lia) ltac:(lia)). reflexivity.
  - unfold gprog in Hg. cbn [forallb] in Hg. apply andb_prop in Hg as [Hg _].
    rewrite (split_semi_all _ (stmt_nosemi _ _ Hs)). rewrite (statement_complete s ts f Hs Hg Hf). reflexivity.
  - unfold gprog in Hg. cbn [forallb] in Hg. apply andb_prop in Hg as [Hg Hgs].
    rewrite app_length in Hn, Hf. cbn [length] in Hn, Hf.
    rewrite (split_semi_at _ _ _ (stmt_nosemi _ _ Hs) Hsemi). rewrite (statement_complete s ts f Hs Hg ltac:(lia)).
    cbn [is_nf existsb negb option_map opaque map app end_split].
    rewrite (IH Hgs n f ltac:(lia) ltac:(lia)). reflexivity.
Qed.

End CompleteStmt.

(** ** whole programs *)
Theorem parse_tokens_complete srclen ss ts : toks_prog ss ts -> gprog ss = true -> parse_tokens srclen ts = ParseOk ss.
Proof.
  intros Hp Hg. unfold parse_tokens, parse_fuel.
  rewrite (statements_complete srclen ss ts Hp Hg (S (length ts)) (6 * length ts + 12) ltac:(lia) ltac:(lia)). reflexivity.
Qed.

Theorem parse_complete s ss : toks_prog ss (scan s) -> gprog ss = true -> parse s = ParseOk ss.
Proof. intros Hp Hg. unfold parse. apply parse_tokens_complete; assumption. Qed.
