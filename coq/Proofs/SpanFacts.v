(** * C10: a node's overall span is the extent from its first to its last token.
    For every tree that represents a token sequence ([toks_expr], ...), in any source whose
    tokens are in order ([toks_within], which [scan] guarantees), the span computed by the
    Span() methods -- the unions listed in the generated table [span_parts] -- is exactly
    (start of the first token, end of the last token). *)
From PQL Require Import Spec.FlattenStmt Proofs.LexerFacts Proofs.ParserSound Proofs.ParserSoundStmt Proofs.ParserReject.
From Coq Require Import Lia.
Local Open Scope list_scope.
Local Open Scope nat_scope.

(** ** extents *)
Definition lo_of (ts : list token) : nat := match ts with t :: _ => tstart t | [] => 0 end.
Definition hi_of (ts : list token) : nat := match ts with t :: r => tend (last r t) | [] => 0 end.
Definition ext (ts : list token) : span := match ts with [] => None | _ => Some (lo_of ts, hi_of ts) end.

Definition inside (lo hi : nat) (sp : span) : Prop :=
  match sp with None => True | Some (a, b) => lo <= a /\ a <= b /\ b <= hi end.
Definition starts (lo : nat) (sp : span) : Prop := exists b, sp = Some (lo, b).
Definition ends (hi : nat) (sp : span) : Prop := exists a, sp = Some (a, hi).

Lemma union2_inside lo hi u s : inside lo hi u -> inside lo hi s -> inside lo hi (union2 u s).
Proof.
  destruct u as [[ua ub]|], s as [[a b]|]; cbn; intros Hu Hs; try assumption.
  - destruct (Nat.leb_spec a b); [|exact Hu]. destruct (Nat.leb_spec ua ub); [|exact Hs]. cbn. lia.
  - destruct (Nat.leb_spec a b); [exact Hs|exact I].
Qed.

Lemma union2_starts lo hi u s : inside lo hi u -> inside lo hi s -> starts lo u \/ starts lo s -> starts lo (union2 u s).
Proof.
  destruct u as [[ua ub]|], s as [[a b]|]; cbn; intros Hu Hs [[x Hx]|[x Hx]]; try discriminate; try (injection Hx as -> ->).
  - destruct (Nat.leb_spec a b); [|eexists; reflexivity]. destruct (Nat.leb_spec lo x); [|lia]. eexists. f_equal. f_equal. lia.
  - destruct (Nat.leb_spec lo x); [|lia]. destruct (Nat.leb_spec ua ub); [|eexists; reflexivity]. eexists. f_equal. f_equal. lia.
  - eexists; reflexivity.
  - destruct (Nat.leb_spec lo x); [eexists; reflexivity|lia].
Qed.

Lemma union2_ends lo hi u s : inside lo hi u -> inside lo hi s -> ends hi u \/ ends hi s -> ends hi (union2 u s).
Proof.
  destruct u as [[ua ub]|], s as [[a b]|]; cbn; intros Hu Hs [[x Hx]|[x Hx]]; try discriminate; try (injection Hx as -> ->).
  - destruct (Nat.leb_spec a b); [|eexists; reflexivity]. destruct (Nat.leb_spec x hi); [|lia]. eexists. f_equal. f_equal. lia.
  - destruct (Nat.leb_spec x hi); [|lia]. destruct (Nat.leb_spec ua ub); [|eexists; reflexivity]. eexists. f_equal. f_equal. lia.
  - eexists; reflexivity.
  - destruct (Nat.leb_spec x hi); [eexists; reflexivity|lia].
Qed.

Lemma fold_union_bounds lo hi : forall L acc, inside lo hi acc -> Forall (inside lo hi) L ->
  (starts lo acc \/ Exists (starts lo) L) -> (ends hi acc \/ Exists (ends hi) L) ->
  fold_left union2 L acc = Some (lo, hi).
Proof.
  induction L as [|s r IH]; intros acc Ha HL Hs He; cbn [fold_left].
  - destruct Hs as [[b Hb]|Hs]; [|inversion Hs]. destruct He as [[a Ha']|He]; [|inversion He]. congruence.
  - inversion HL as [|s' r' Hs0 Hr]; subst. apply IH; [apply union2_inside; assumption|exact Hr| |].
    + destruct Hs as [Hs|Hs]; [left; apply (union2_starts lo hi); auto|].
      inversion Hs; subst; [left; apply (union2_starts lo hi); auto|right; assumption].
    + destruct He as [He|He]; [left; apply (union2_ends lo hi); auto|].
      inversion He; subst; [left; apply (union2_ends lo hi); auto|right; assumption].
Qed.

Lemma union_spans_bounds lo hi L : Forall (inside lo hi) L -> Exists (starts lo) L -> Exists (ends hi) L ->
  union_spans L = Some (lo, hi).
Proof. intros. apply fold_union_bounds; auto. exact I. Qed.

Lemma fold_union_inside lo hi : forall L acc, inside lo hi acc -> Forall (inside lo hi) L -> inside lo hi (fold_left union2 L acc).
Proof.
  induction L as [|s r IH]; intros acc Ha HL; cbn [fold_left]; [exact Ha|].
  inversion HL; subst. apply IH; [apply union2_inside; assumption|assumption].
Qed.

Lemma union_spans_inside lo hi L : Forall (inside lo hi) L -> inside lo hi (union_spans L).
Proof. intros. apply fold_union_inside; [exact I|assumption]. Qed.

(** ** ordered token lists *)
Lemma within_app a : forall b lo hi, toks_within lo hi (a ++ b) -> toks_within lo hi a /\ toks_within lo hi b.
Proof.
  induction a as [|t a IH]; intros b lo hi W; cbn [app] in W.
  - split; [constructor; exact (toks_within_le _ _ _ W)|exact W].
  - inversion W as [|lo1 hi1 t1 ts1 H1 H2 H3 W']; subst.
    destruct (IH b (tend t) hi W') as [Wa Wb]. split; [constructor; assumption|].
    eapply toks_within_weaken; [|exact Wb]. lia.
Qed.

Lemma last_indep {A} (l : list A) d d' : l <> [] -> last l d = last l d'.
Proof. induction l as [|x l IH]; [congruence|]. intros _. destruct l as [|y l]; [reflexivity|]. cbn [last] in *. apply IH. discriminate. Qed.

Lemma last_cons_ne {A} (x : A) l d : l <> [] -> last (x :: l) d = last l d.
Proof. destruct l; [congruence|reflexivity]. Qed.

Lemma hi_of_cons t r : r <> [] -> hi_of (t :: r) = hi_of r.
Proof.
  destruct r as [|t2 r']; [congruence|]. intros _. unfold hi_of. f_equal.
  destruct r' as [|t3 r'']; [reflexivity|]. rewrite last_cons_ne by discriminate. apply last_indep. discriminate.
Qed.

Lemma within_lower_hi lo hi ts : toks_within lo hi ts -> ts <> [] -> toks_within lo (hi_of ts) ts /\ hi_of ts <= hi.
Proof.
  induction 1 as [|lo hi t ts H1 H2 H3 W IH]; intros Hne; [congruence|].
  destruct ts as [|t2 r].
  - cbn [hi_of last]. split; [|exact H3]. constructor; try lia. constructor. lia.
  - destruct (IH ltac:(discriminate)) as [IH1 IH2]. rewrite hi_of_cons by discriminate. split; [|exact IH2].
    constructor; try lia; [|exact IH1]. pose proof (toks_within_le _ _ _ IH1). lia.
Qed.

Lemma within_tight lo hi ts : toks_within lo hi ts -> ts <> [] -> toks_within (lo_of ts) (hi_of ts) ts.
Proof.
  intros W Hne. destruct (within_lower_hi _ _ _ W Hne) as [W' _].
  destruct ts as [|t r]; [congruence|]. cbn [lo_of]. inversion W'; subst. constructor; try lia. assumption.
Qed.

Lemma ext_inside lo hi ts : toks_within lo hi ts -> inside lo hi (ext ts).
Proof.
  intros W. destruct ts as [|t r] eqn:E; [exact I|]. rewrite <- E in *. assert (Hne : ts <> []) by (subst; discriminate).
  destruct (within_lower_hi _ _ _ W Hne) as [W' Hhi].
  assert (ext ts = Some (lo_of ts, hi_of ts)) as -> by (subst; reflexivity).
  cbn [inside]. subst ts. cbn [lo_of]. inversion W' as [|lo1 hi1 t1 ts1 G1 G2 G3 G4]; subst. pose proof (toks_within_le _ _ _ G4). repeat split; lia.
Qed.

Lemma lo_of_app a b : a <> [] -> lo_of (a ++ b) = lo_of a.
Proof. destruct a; [congruence|reflexivity]. Qed.

Lemma hi_of_app a b : b <> [] -> hi_of (a ++ b) = hi_of b.
Proof.
  intros Hb. induction a as [|x a IH]; [reflexivity|]. cbn [app]. rewrite hi_of_cons; [exact IH|].
  destruct a; [exact Hb|discriminate].
Qed.

Lemma ext_some ts : ts <> [] -> ext ts = Some (lo_of ts, hi_of ts).
Proof. destruct ts; [congruence|reflexivity]. Qed.

(** ** unfolding Span() *)
Lemma gspan_GN k fs : gspan (GN k fs) =
  union_spans (map (fun p => assoc_span (map (fun fv => match fv with (f, v) => (f, fspan v) end) fs) (spart_field p)) (span_parts k)).
Proof. reflexivity. Qed.
Lemma fspan_span s : fspan (GSpan s) = s. Proof. reflexivity. Qed.
Lemma fspan_node c : fspan (GNode (Some c)) = gspan c. Proof. reflexivity. Qed.
Lemma fspan_none : fspan (GNode None) = None. Proof. reflexivity. Qed.
Lemma fspan_slice cs : fspan (GSlice cs) = union_spans (filter span_valid (map gspan cs)). Proof. reflexivity. Qed.

Ltac gs := rewrite gspan_GN; cbn [span_parts map spart_field assoc_span fname_eqb fname_code Nat.eqb];
           rewrite ?fspan_span, ?fspan_node, ?fspan_none, ?fspan_slice.


(** ** small facts about the flattening relations *)
Lemma toks_qual_ne ps ts : toks_qual ps ts -> ts <> [].
Proof. destruct 1; discriminate. Qed.
Lemma toks_expr_ne e ts : toks_expr e ts -> ts <> [].
Proof.
  destruct 1; try discriminate; try (eapply toks_qual_ne; eassumption);
    match goal with |- ?a ++ _ :: _ <> [] => destruct a; discriminate end.
Qed.
Lemma toks_list_ne l ts : toks_list l ts -> ts <> [].
Proof. destruct 1; [eapply toks_expr_ne; eassumption|destruct te; discriminate]. Qed.

Lemma tok_span_ext t : tok_span t = ext [t].
Proof. reflexivity. Qed.

Lemma is_tok_ext k sp t : is_tok k sp t -> sp = ext [t].
Proof. intros [_ <-]. reflexivity. Qed.
Lemma kw_tok_ext ws sp t : kw_tok ws sp t -> sp = ext [t].
Proof. intros (_ & _ & <-). reflexivity. Qed.
Lemma ident_tok_ext i t : ident_tok i t -> ispan i = ext [t].
Proof. intros (_ & _ & <-). reflexivity. Qed.

Lemma valid_of_inside lo hi sp : inside lo hi sp -> sp <> None -> span_valid sp = true.
Proof. destruct sp as [[a b]|]; [|congruence]. cbn. intros (H1 & H2 & H3) _. apply Nat.leb_le. exact H2. Qed.

Lemma union_single sp : span_valid sp = true -> union_spans [sp] = sp.
Proof. destruct sp as [[a b]|]; [|discriminate]. unfold union_spans. cbn. intros ->. reflexivity. Qed.

Lemma filter_all {A} (f : A -> bool) l : Forall (fun x => f x = true) l -> filter f l = l.
Proof. induction 1 as [|x l Hx Hl IH]; [reflexivity|]. cbn. rewrite Hx, IH. reflexivity. Qed.

Lemma within_single lo hi t r : toks_within lo hi (t :: r) -> toks_within lo hi [t] /\ toks_within lo hi r.
Proof. apply (within_app [t] r). Qed.

Lemma ext_valid lo hi ts : toks_within lo hi ts -> ts <> [] -> span_valid (ext ts) = true.
Proof. intros W Hne. eapply valid_of_inside; [apply ext_inside; exact W|]. rewrite ext_some by assumption. discriminate. Qed.

(** an identifier's span is its token *)
Lemma ident_span i t : ident_tok i t -> forall lo hi, toks_within lo hi [t] -> gspan (g_ident i) = ext [t].
Proof.
  intros Hi lo hi W. unfold g_ident. gs. rewrite (ident_tok_ext _ _ Hi). apply union_single.
  eapply ext_valid; [exact W|discriminate].
Qed.

(** the statement for element lists: every element's span is valid and inside, the first
    starts where the tokens start, one of them ends where they end *)
Definition list_spans (L : list span) (ts : list token) : Prop :=
  forall lo hi, toks_within lo hi ts ->
    Forall (inside lo hi) L /\ Forall (fun s => span_valid s = true) L /\ Exists (starts (lo_of ts)) L /\ Exists (ends (hi_of ts)) L.

Lemma list_spans_union L ts lo hi : list_spans L ts -> toks_within lo hi ts -> ts <> [] ->
  union_spans (filter span_valid L) = ext ts.
Proof.
  intros HL W Hne. destruct (HL _ _ (within_tight _ _ _ W Hne)) as (H1 & H2 & H3 & H4).
  rewrite filter_all by exact H2. rewrite ext_some by exact Hne. apply union_spans_bounds; assumption.
Qed.

Lemma list_spans_one sp ts : ts <> [] -> sp = ext ts -> list_spans [sp] ts.
Proof.
  intros Hne -> lo hi W. repeat split.
  - constructor; [apply ext_inside; exact W|constructor].
  - constructor; [eapply ext_valid; eassumption|constructor].
  - constructor. rewrite ext_some by exact Hne. eexists; reflexivity.
  - constructor. rewrite ext_some by exact Hne. eexists; reflexivity.
Qed.

Lemma list_spans_cons sp te c L tr : te <> [] -> tr <> [] -> sp = ext te -> list_spans L tr -> list_spans (sp :: L) (te ++ c :: tr).
Proof.
  intros Hte Htr -> HL lo hi W.
  destruct (within_app _ _ _ _ W) as [Wte Wr]. destruct (within_single _ _ _ _ Wr) as [_ Wtr].
  destruct (HL _ _ Wtr) as (H1 & H2 & H3 & H4). repeat split.
  - constructor; [apply ext_inside; exact Wte|exact H1].
  - constructor; [eapply ext_valid; eassumption|exact H2].
  - constructor. rewrite ext_some, lo_of_app by exact Hte. eexists; reflexivity.
  - apply Exists_cons_tl. rewrite hi_of_app by discriminate. rewrite hi_of_cons by exact Htr. exact H4.
Qed.

(** the parts of a qualified name *)
Lemma qual_spans ps ts : toks_qual ps ts -> list_spans (map gspan (map g_ident ps)) ts.
Proof.
  induction 1 as [i t Hi|i t d r tr Hi Hd Hr IH].
  - cbn [map]. intros lo hi W. rewrite (ident_span _ _ Hi _ _ W). apply (list_spans_one _ [t]); [discriminate|reflexivity|exact W].
  - cbn [map]. intros lo hi W. destruct (within_single _ _ _ _ W) as [Wt _].
    rewrite (ident_span _ _ Hi _ _ Wt).
    apply (list_spans_cons _ [t] d _ tr); [discriminate|eapply toks_qual_ne; eassumption|reflexivity|exact IH|exact W].
Qed.

(** a helper for nodes: the union of parts each of which is the extent of a piece of the
    node's tokens, the first piece first and the last piece last *)
Ltac insides := repeat (apply Forall_cons; [first [apply ext_inside; assumption | exact I | apply union_spans_inside; assumption]|]); apply Forall_nil.

Ltac parts_inside W :=
  repeat match goal with
  | |- Forall _ [] => constructor
  | |- Forall _ (_ :: _) => constructor
  | |- inside _ _ None => exact I
  | |- inside _ _ (ext _) => apply ext_inside
  end.

Theorem expr_span :
  (forall e ts, toks_expr e ts -> forall lo hi, toks_within lo hi ts -> gspan (g_expr e) = ext ts) /\
  (forall l ts, toks_list l ts -> list_spans (map gspan (map g_expr l)) ts) /\
  (forall l ts, toks_args l ts -> forall lo hi, toks_within lo hi ts ->
     Forall (inside lo hi) (map gspan (map g_expr l)) /\ Forall (fun s => span_valid s = true) (map gspan (map g_expr l))).
Proof.
  apply toks_expr_mutind.
  - (* qualified name *) intros ps ts Hq lo hi W. cbn [g_expr]. gs.
    pose proof (toks_qual_ne _ _ Hq) as Hne.
    rewrite (list_spans_union _ ts lo hi (qual_spans _ _ Hq) W Hne). apply union_single. eapply ext_valid; eassumption.
  - (* literal *) intros sp k v t _ _ _ <- lo hi W. cbn [g_expr]. gs. rewrite tok_span_ext. apply union_single. eapply ext_valid; [exact W|discriminate].
  - (* unary *) intros sp op x t tx _ Ht Hx IH lo hi W. cbn [g_expr]. gs.
    pose proof (toks_expr_ne _ _ Hx) as Hne.
    pose proof (within_tight _ _ _ W ltac:(discriminate)) as Wt.
    destruct (within_single _ _ _ _ Wt) as [W1 W2].
    rewrite (IH _ _ W2), (is_tok_ext _ _ _ Ht). rewrite (ext_some (t :: tx)) by discriminate.
    apply union_spans_bounds.
    + insides.
    + constructor. eexists; reflexivity.
    + apply Exists_cons_tl. constructor. rewrite ext_some by exact Hne. rewrite hi_of_cons by exact Hne. eexists; reflexivity.
  - (* binary *) intros x sp op y tx t ty _ _ Hx IHx Ht Hy IHy lo hi W. cbn [g_expr]. gs.
    pose proof (toks_expr_ne _ _ Hx) as Hnx. pose proof (toks_expr_ne _ _ Hy) as Hny.
    assert (Hne : tx ++ t :: ty <> []) by (destruct tx; discriminate).
    pose proof (within_tight _ _ _ W Hne) as Wt.
    destruct (within_app _ _ _ _ Wt) as [W1 W2]. destruct (within_single _ _ _ _ W2) as [W3 W4].
    rewrite (IHx _ _ W1), (IHy _ _ W4), (is_tok_ext _ _ _ Ht). rewrite (ext_some (tx ++ t :: ty)) by exact Hne.
    apply union_spans_bounds.
    + insides.
    + constructor. rewrite ext_some, lo_of_app by exact Hnx. eexists; reflexivity.
    + apply Exists_cons_tl. apply Exists_cons_tl. constructor. rewrite ext_some by exact Hny.
      rewrite hi_of_app by discriminate. rewrite hi_of_cons by exact Hny. eexists; reflexivity.
  - (* in *) intros x isp lsp vs rsp tx ti tl tvs tr Hx IHx Hi Hl Hvs IHvs _ Hr lo hi W. cbn [g_expr]. gs.
    pose proof (toks_expr_ne _ _ Hx) as Hnx. pose proof (toks_list_ne _ _ Hvs) as Hnv.
    assert (Hne : tx ++ ti :: tl :: tvs ++ [tr] <> []) by (destruct tx; discriminate).
    pose proof (within_tight _ _ _ W Hne) as Wt.
    destruct (within_app _ _ _ _ Wt) as [W1 W2]. destruct (within_single _ _ _ _ W2) as [W3 W4].
    destruct (within_single _ _ _ _ W4) as [W5 W6]. destruct (within_app _ _ _ _ W6) as [W7 W8].
    rewrite (IHx _ _ W1), (is_tok_ext _ _ _ Hi), (is_tok_ext _ _ _ Hl), (is_tok_ext _ _ _ Hr).
    rewrite (list_spans_union _ tvs _ _ IHvs W7 Hnv). rewrite (ext_some (tx ++ ti :: tl :: tvs ++ [tr])) by exact Hne.
    apply union_spans_bounds.
    + insides.
    + constructor. rewrite ext_some, lo_of_app by exact Hnx. eexists; reflexivity.
    + do 4 apply Exists_cons_tl. constructor.
      rewrite hi_of_app by discriminate. do 2 rewrite hi_of_cons by (destruct tvs; discriminate). rewrite hi_of_app by discriminate. eexists; reflexivity.
  - (* paren *) intros lsp x rsp tl tx tr Hl Hx IHx Hr lo hi W. cbn [g_expr]. gs.
    pose proof (toks_expr_ne _ _ Hx) as Hnx.
    pose proof (within_tight _ _ _ W ltac:(discriminate)) as Wt.
    destruct (within_single _ _ _ _ Wt) as [W1 W2]. destruct (within_app _ _ _ _ W2) as [W3 W4].
    rewrite (IHx _ _ W3), (is_tok_ext _ _ _ Hl), (is_tok_ext _ _ _ Hr). rewrite (ext_some (tl :: tx ++ [tr])) by discriminate.
    apply union_spans_bounds.
    + insides.
    + constructor. eexists; reflexivity.
    + do 2 apply Exists_cons_tl. constructor. rewrite hi_of_cons by (destruct tx; discriminate). rewrite hi_of_app by discriminate. eexists; reflexivity.
  - (* call *) intros f lsp args rsp tf tl targs tr Hf _ Hl Ha IHa Hr lo hi W. cbn [g_expr]. gs.
    pose proof (within_tight _ _ _ W ltac:(discriminate)) as Wt.
    destruct (within_single _ _ _ _ Wt) as [W1 W2]. destruct (within_single _ _ _ _ W2) as [W3 W4]. destruct (within_app _ _ _ _ W4) as [W5 W6].
    rewrite (ident_span _ _ Hf _ _ W1), (is_tok_ext _ _ _ Hl), (is_tok_ext _ _ _ Hr).
    destruct (IHa _ _ W5) as [Hin Hval]. rewrite filter_all by exact Hval.
    rewrite (ext_some (tf :: tl :: targs ++ [tr])) by discriminate.
    apply union_spans_bounds.
    + constructor; [apply ext_inside; assumption|]. constructor; [apply ext_inside; assumption|].
      constructor; [apply union_spans_inside; exact Hin|]. constructor; [apply ext_inside; assumption|constructor].
    + constructor. eexists; reflexivity.
    + do 3 apply Exists_cons_tl. constructor. do 2 rewrite hi_of_cons by (destruct targs; discriminate). rewrite hi_of_app by discriminate. eexists; reflexivity.
  - (* index *) intros x lsp i rsp tx tl ti tr Hx IHx Hl Hi IHi Hr lo hi W. cbn [g_expr]. gs.
    pose proof (toks_expr_ne _ _ Hx) as Hnx. pose proof (toks_expr_ne _ _ Hi) as Hni.
    assert (Hne : tx ++ tl :: ti ++ [tr] <> []) by (destruct tx; discriminate).
    pose proof (within_tight _ _ _ W Hne) as Wt.
    destruct (within_app _ _ _ _ Wt) as [W1 W2]. destruct (within_single _ _ _ _ W2) as [W3 W4]. destruct (within_app _ _ _ _ W4) as [W5 W6].
    rewrite (IHx _ _ W1), (IHi _ _ W5), (is_tok_ext _ _ _ Hl), (is_tok_ext _ _ _ Hr). rewrite (ext_some (tx ++ tl :: ti ++ [tr])) by exact Hne.
    apply union_spans_bounds.
    + insides.
    + constructor. rewrite ext_some, lo_of_app by exact Hnx. eexists; reflexivity.
    + do 3 apply Exists_cons_tl. constructor. rewrite hi_of_app by discriminate. rewrite hi_of_cons by (destruct ti; discriminate). rewrite hi_of_app by discriminate. eexists; reflexivity.
  - (* list: one *) intros e te He IH. cbn [map]. pose proof (toks_expr_ne _ _ He) as Hne.
    intros lo hi W. rewrite (IH _ _ W). apply list_spans_one; [exact Hne|reflexivity|exact W].
  - (* list: more *) intros e te c r tr He IH Hc Hr IHr Hne. cbn [map].
    pose proof (toks_expr_ne _ _ He) as Hnte. pose proof (toks_list_ne _ _ Hr) as Hntr.
    intros lo hi W. destruct (within_app _ _ _ _ W) as [W1 _]. rewrite (IH _ _ W1).
    apply list_spans_cons; [exact Hnte|exact Hntr|reflexivity|exact IHr|exact W].
  - (* args: none *) intros lo hi W. split; constructor.
  - (* args: list *) intros args ts Hl IH Hne lo hi W. destruct (IH _ _ W) as (H1 & H2 & _). split; assumption.
  - (* args: trailing comma *) intros args ts c Hl IH Hne Hc lo hi W.
    destruct (within_app _ _ _ _ W) as [W1 _]. destruct (IH _ _ W1) as (H1 & H2 & _). split; assumption.
Qed.

(** ** automation for the remaining node kinds *)
Lemma ne_app_cons {A} (a : list A) t b : a ++ t :: b <> [].
Proof. destruct a; discriminate. Qed.
Lemma ne_app_r {A} (a b : list A) : b <> [] -> a ++ b <> [].
Proof. destruct a; [auto|discriminate]. Qed.
Lemma ne_app_l {A} (a b : list A) : a <> [] -> a ++ b <> [].
Proof. destruct a; [congruence|discriminate]. Qed.

Ltac ne_tac := solve [ assumption | discriminate | apply ne_app_cons | apply ne_app_l; ne_tac | apply ne_app_r; ne_tac ].

Definition kept (P : Prop) : Prop := P.
Ltac split_within :=
  repeat match goal with
  | W : toks_within ?lo ?hi (?a ++ ?b) |- _ =>
      let K := fresh "K" in pose proof (W : kept (toks_within lo hi (a ++ b))) as K; apply within_app in W; destruct W as [? ?]
  | W : toks_within ?lo ?hi (?t :: ?r) |- _ =>
      lazymatch r with [] => fail | _ =>
        let K := fresh "K" in pose proof (W : kept (toks_within lo hi (t :: r))) as K; apply within_single in W; destruct W as [? ?] end
  end; unfold kept in *.

Ltac norm_hi := repeat first [ rewrite hi_of_cons by ne_tac | rewrite hi_of_app by ne_tac ].
Ltac norm_lo := repeat first [ rewrite lo_of_app by ne_tac ].

Ltac starts_one := cbn [app]; rewrite ?app_nil_r; rewrite ?ext_some by ne_tac; norm_lo; eexists; reflexivity.
Ltac ends_one := cbn [app]; rewrite ?app_nil_r; rewrite ?ext_some by ne_tac; norm_hi; eexists; reflexivity.
Ltac starts_tac := first [ apply Exists_cons_hd; solve [starts_one] | apply Exists_cons_tl; starts_tac ].
Ltac ends_tac := first [ apply Exists_cons_hd; solve [ends_one] | apply Exists_cons_tl; ends_tac ].

(** goal: [union_spans L = ext TS] with every element of [L] the extent of a piece of [TS]
    (or null); [W] orders [TS] *)
Ltac node_tac W Hne :=
  let Wt := fresh "Wt" in
  pose proof (within_tight _ _ _ W Hne) as Wt; split_within;
  rewrite (ext_some _ Hne); apply union_spans_bounds; [insides | starts_tac | ends_tac].

(** rewrite the spans of sub-expressions once the ordering facts of their tokens are known *)
Ltac child_spans :=
  repeat match goal with
  | Hx : toks_expr ?x ?tx, Wx : toks_within _ _ ?tx |- context [gspan (g_expr ?x)] => rewrite (proj1 expr_span _ _ Hx _ _ Wx)
  | Hi : ident_tok ?i ?t, Wi : toks_within _ _ [?t] |- context [gspan (g_ident ?i)] => rewrite (ident_span _ _ Hi _ _ Wi)
  end.

Ltac tok_spans :=
  repeat match goal with
  | H : is_tok _ ?sp ?t |- _ => is_var sp; pose proof (is_tok_ext _ _ _ H); subst sp
  | H : kw_tok _ ?sp ?t |- _ => is_var sp; pose proof (kw_tok_ext _ _ _ H); subst sp
  end.

Ltac finish_node W Hne :=
  let Wt := fresh "Wt" in
  pose proof (within_tight _ _ _ W Hne) as Wt; split_within; child_spans;
  match goal with |- _ = ext ?TS => transitivity (Some (lo_of TS, hi_of TS)); [|symmetry; exact (ext_some _ Hne)] end;
  apply union_spans_bounds; [insides | starts_tac | ends_tac].

(** ** sort terms *)
Lemma sort_term_span t ts : toks_sort_term t ts -> ts <> [] /\ forall lo hi, toks_within lo hi ts -> gspan (g_sort_term t) = ext ts.
Proof.
  intros H. destruct H as [x asc asp dflt nf nsp tx ta tn Hx Hd Hn].
  pose proof (toks_expr_ne _ _ Hx) as Hnx. split; [ne_tac|].
  intros lo hi W. unfold g_sort_term. cbn [st_x st_asc st_ascspan st_nullsfirst st_nullsspan]. gs.
  assert (Hne : tx ++ ta ++ tn <> []) by ne_tac.
  destruct Hd as [|sp t Hk|sp t Hk]; destruct Hn as [|t1 t2 H1 H2|t1 t2 H1 H2]; tok_spans;
    try change (Some (tstart t1, tend t2)) with (ext [t1; t2]); finish_node W Hne.
Qed.

(** ** columns and properties *)
Lemma ext_col_span k c ts : k = N_ExtendColumn \/ k = N_SummarizeColumn -> toks_ext_col c ts ->
  ts <> [] /\ forall lo hi, toks_within lo hi ts -> gspan (g_ext_col k c) = ext ts.
Proof.
  intros Hk H. destruct H as [i asp x ti ta tx Hi Ha Hx|x tx Hx]; pose proof (toks_expr_ne _ _ Hx) as Hnx.
  - split; [ne_tac|]. intros lo hi W. unfold g_ext_col. cbn [ec_name ec_assign ec_x option_map].
    assert (Hne : ti :: ta :: tx <> []) by ne_tac. tok_spans.
    destruct Hk as [-> | ->]; gs; finish_node W Hne.
  - split; [exact Hnx|]. intros lo hi W. unfold g_ext_col. cbn [ec_name ec_assign ec_x option_map].
    destruct Hk as [-> | ->]; gs; finish_node W Hnx.
Qed.

Lemma proj_col_span c ts : toks_proj_col c ts -> ts <> [] /\ forall lo hi, toks_within lo hi ts -> gspan (g_proj_col c) = ext ts.
Proof.
  intros H. destruct H as [i ti Hi|i asp x ti ta tx Hi Ha Hx].
  - split; [ne_tac|]. intros lo hi W. unfold g_proj_col. cbn [pc_name pc_assign pc_x option_map]. gs.
    assert (Hne : [ti] <> []) by ne_tac. finish_node W Hne.
  - pose proof (toks_expr_ne _ _ Hx) as Hnx. split; [ne_tac|]. intros lo hi W. unfold g_proj_col. cbn [pc_name pc_assign pc_x option_map]. gs.
    assert (Hne : ti :: ta :: tx <> []) by ne_tac. tok_spans. finish_node W Hne.
Qed.

Lemma render_prop_span c ts : toks_render_prop c ts -> ts <> [] /\ forall lo hi, toks_within lo hi ts -> gspan (g_render_prop c) = ext ts.
Proof.
  intros H. destruct H as [i asp x ti ta tx Hi Ha Hx]. pose proof (toks_expr_ne _ _ Hx) as Hnx. split; [ne_tac|].
  intros lo hi W. unfold g_render_prop. cbn [rp_name rp_assign rp_value]. gs.
  assert (Hne : ti :: ta :: tx <> []) by ne_tac. tok_spans. finish_node W Hne.
Qed.

(** ** separated lists *)
Lemma sep_spans {A} (P : A -> list token -> Prop) (g : A -> gnode) :
  (forall a ta, P a ta -> ta <> [] /\ forall lo hi, toks_within lo hi ta -> gspan (g a) = ext ta) ->
  forall l ts, toks_sep P l ts -> ts <> [] /\ list_spans (map gspan (map g l)) ts.
Proof.
  intros HP l ts H. induction H as [a ta Ha|a ta c r tr Ha Hc Hr [IHne IH]].
  - destruct (HP _ _ Ha) as [Hne Hs]. split; [exact Hne|]. cbn [map]. intros lo hi W. rewrite (Hs _ _ W).
    apply list_spans_one; [exact Hne|reflexivity|exact W].
  - destruct (HP _ _ Ha) as [Hne Hs]. split; [ne_tac|]. cbn [map]. intros lo hi W.
    destruct (within_app _ _ _ _ W) as [W1 _]. rewrite (Hs _ _ W1).
    apply list_spans_cons; [exact Hne|exact IHne|reflexivity|exact IH|exact W].
Qed.

Lemma sep_union {A} (P : A -> list token -> Prop) (g : A -> gnode) :
  (forall a ta, P a ta -> ta <> [] /\ forall lo hi, toks_within lo hi ta -> gspan (g a) = ext ta) ->
  forall l ts lo hi, toks_sep P l ts -> toks_within lo hi ts -> union_spans (filter span_valid (map gspan (map g l))) = ext ts.
Proof.
  intros HP l ts lo hi H W. destruct (sep_spans P g HP l ts H) as [Hne Hl]. eapply list_spans_union; eassumption.
Qed.

Lemma toks_sep_ne {A} (P : A -> list token -> Prop) : (forall a ta, P a ta -> ta <> []) -> forall l ts, toks_sep P l ts -> ts <> [].
Proof. intros HP l ts H. destruct H as [a ta Ha|a ta c r tr Ha Hc Hr]; [eapply HP; eassumption|ne_tac]. Qed.

(** ** operators *)
Lemma union_nil : union_spans [] = None.
Proof. reflexivity. Qed.

Lemma list_spans_cons0 sp te L tr : te <> [] -> tr <> [] -> sp = ext te -> list_spans L tr -> list_spans (sp :: L) (te ++ tr).
Proof.
  intros Hte Htr -> HL lo hi W.
  destruct (within_app _ _ _ _ W) as [Wte Wtr].
  destruct (HL _ _ Wtr) as (H1 & H2 & H3 & H4). repeat split.
  - constructor; [apply ext_inside; exact Wte|exact H1].
  - constructor; [eapply ext_valid; eassumption|exact H2].
  - constructor. rewrite ext_some, lo_of_app by exact Hte. eexists; reflexivity.
  - apply Exists_cons_tl. rewrite hi_of_app by exact Htr. exact H4.
Qed.

Definition ops_spans (l : list operator) (ts : list token) : Prop :=
  (l = [] /\ ts = []) \/ (ts <> [] /\ list_spans (map gspan (map g_op l)) ts).

Lemma ops_union l ts lo hi : ops_spans l ts -> toks_within lo hi ts -> union_spans (filter span_valid (map gspan (map g_op l))) = ext ts.
Proof.
  intros [[-> ->]|[Hne Hl]] W; [reflexivity|]. eapply list_spans_union; eassumption.
Qed.

Lemma list_union l ts lo hi : toks_list l ts -> toks_within lo hi ts -> union_spans (filter span_valid (map gspan (map g_expr l))) = ext ts.
Proof. intros Hl W. eapply list_spans_union; [apply (proj1 (proj2 expr_span)); exact Hl|exact W|eapply toks_list_ne; exact Hl]. Qed.

Lemma table_ref_span i t lo hi : ident_tok i t -> toks_within lo hi [t] -> gspan (g_table_ref i) = ext [t].
Proof.
  intros Hi W. unfold g_table_ref. gs. rewrite (ident_span _ _ Hi _ _ W). apply union_single. eapply ext_valid; [exact W|discriminate].
Qed.

Lemma tab_span rsrc rops tsrc tro lo hi : ident_tok rsrc tsrc -> ops_spans rops tro -> toks_within lo hi (tsrc :: tro) ->
  gspan (GN N_TabularExpr [(F_Source, GNode (Some (g_table_ref rsrc))); (F_Operators, GSlice (map g_op rops))]) = ext (tsrc :: tro).
Proof.
  intros Hi Ho W. gs. assert (Hne : tsrc :: tro <> []) by discriminate.
  pose proof (within_tight _ _ _ W Hne) as Wt. destruct (within_single _ _ _ _ Wt) as [W1 W2].
  rewrite (table_ref_span _ _ _ _ Hi W1), (ops_union _ _ _ _ Ho W2).
  transitivity (Some (lo_of (tsrc :: tro), hi_of (tsrc :: tro))); [|reflexivity].
  apply union_spans_bounds; [insides|starts_tac|]. destruct Ho as [[-> ->]|[Hn _]]; ends_tac.
Qed.

Definition ext_hp k (Hk : k = N_ExtendColumn \/ k = N_SummarizeColumn) := fun a ta (H : toks_ext_col a ta) => ext_col_span k a ta Hk H.

Ltac slice_spans :=
  repeat match goal with
  | Hs : toks_sep toks_sort_term ?l ?tt, Wx : toks_within _ _ ?tt |- context [map gspan (map g_sort_term ?l)] =>
      rewrite (sep_union _ _ sort_term_span _ _ _ _ Hs Wx)
  | Hs : toks_sep toks_proj_col ?l ?tt, Wx : toks_within _ _ ?tt |- context [map gspan (map g_proj_col ?l)] =>
      rewrite (sep_union _ _ proj_col_span _ _ _ _ Hs Wx)
  | Hs : toks_sep toks_render_prop ?l ?tt, Wx : toks_within _ _ ?tt |- context [map gspan (map g_render_prop ?l)] =>
      rewrite (sep_union _ _ render_prop_span _ _ _ _ Hs Wx)
  | Hs : toks_sep toks_ext_col ?l ?tt, Wx : toks_within _ _ ?tt |- context [map gspan (map (g_ext_col N_ExtendColumn) ?l)] =>
      rewrite (sep_union _ _ (ext_hp N_ExtendColumn (or_introl eq_refl)) _ _ _ _ Hs Wx)
  | Hs : toks_sep toks_ext_col ?l ?tt, Wx : toks_within _ _ ?tt |- context [map gspan (map (g_ext_col N_SummarizeColumn) ?l)] =>
      rewrite (sep_union _ _ (ext_hp N_SummarizeColumn (or_intror eq_refl)) _ _ _ _ Hs Wx)
  | Hs : toks_list ?l ?tt, Wx : toks_within _ _ ?tt |- context [map gspan (map g_expr ?l)] =>
      rewrite (list_union _ _ _ _ Hs Wx)
  | Hs : toks_sort_term ?c ?tt, Wx : toks_within _ _ ?tt |- context [gspan (g_sort_term ?c)] =>
      rewrite (proj2 (sort_term_span _ _ Hs) _ _ Wx)
  | Hs : ops_spans ?l ?tt, Wx : toks_within _ _ ?tt |- context [map gspan (map g_op ?l)] =>
      rewrite (ops_union _ _ _ _ Hs Wx)
  end.

Ltac finish_op W Hne :=
  let Wt := fresh "Wt" in
  pose proof (within_tight _ _ _ W Hne) as Wt; split_within; child_spans; slice_spans;
  cbn [map filter]; rewrite ?union_nil;
  match goal with |- _ = ext ?TS => transitivity (Some (lo_of TS, hi_of TS)); [|symmetry; exact (ext_some _ Hne)] end;
  apply union_spans_bounds; [insides | starts_tac | ends_tac].

Lemma sep_ne_sort l ts : toks_sep toks_sort_term l ts -> ts <> [].
Proof. apply toks_sep_ne. intros a ta H. apply (sort_term_span _ _ H). Qed.
Lemma sep_ne_proj l ts : toks_sep toks_proj_col l ts -> ts <> [].
Proof. apply toks_sep_ne. intros a ta H. apply (proj_col_span _ _ H). Qed.
Lemma sep_ne_ext l ts : toks_sep toks_ext_col l ts -> ts <> [].
Proof. apply toks_sep_ne. intros a ta H. apply (ext_col_span N_ExtendColumn _ _ (or_introl eq_refl) H). Qed.
Lemma sep_ne_prop l ts : toks_sep toks_render_prop l ts -> ts <> [].
Proof. apply toks_sep_ne. intros a ta H. apply (render_prop_span _ _ H). Qed.

Ltac note_ne :=
  repeat match goal with
  | H : toks_expr _ ?t |- _ => lazymatch goal with N : t <> [] |- _ => fail | _ => pose proof (toks_expr_ne _ _ H) end
  | H : toks_list _ ?t |- _ => lazymatch goal with N : t <> [] |- _ => fail | _ => pose proof (toks_list_ne _ _ H) end
  | H : toks_sort_term _ ?t |- _ => lazymatch goal with N : t <> [] |- _ => fail | _ => pose proof (proj1 (sort_term_span _ _ H)) end
  | H : toks_sep toks_sort_term _ ?t |- _ => lazymatch goal with N : t <> [] |- _ => fail | _ => pose proof (sep_ne_sort _ _ H) end
  | H : toks_sep toks_proj_col _ ?t |- _ => lazymatch goal with N : t <> [] |- _ => fail | _ => pose proof (sep_ne_proj _ _ H) end
  | H : toks_sep toks_ext_col _ ?t |- _ => lazymatch goal with N : t <> [] |- _ => fail | _ => pose proof (sep_ne_ext _ _ H) end
  | H : toks_sep toks_render_prop _ ?t |- _ => lazymatch goal with N : t <> [] |- _ => fail | _ => pose proof (sep_ne_prop _ _ H) end
  end.

Theorem op_span :
  (forall o ts, toks_op o ts -> ts <> [] /\ forall lo hi, toks_within lo hi ts -> gspan (g_op o) = ext ts) /\
  (forall l ts, toks_ops l ts -> ops_spans l ts).
Proof.
  apply toks_op_mutind.
  - (* count *) intros psp ksp p n Hp Hn. split; [discriminate|]. intros lo hi W. cbn [g_op]. gs. tok_spans.
    assert (Hne : [p; n] <> []) by discriminate. finish_op W Hne.
  - (* where *) intros psp ksp x p n tx Hp Hn Hx. split; [discriminate|]. intros lo hi W. cbn [g_op]. gs. tok_spans. note_ne.
    assert (Hne : p :: n :: tx <> []) by discriminate. finish_op W Hne.
  - (* sort *) intros psp terms p n b tt Hp Hn Hb Ht. split; [discriminate|]. intros lo hi W. cbn [g_op]. gs. tok_spans. note_ne.
    change (Some (tstart n, tend b)) with (ext [n; b]).
    assert (Hne : p :: n :: b :: tt <> []) by discriminate.
    change (p :: n :: b :: tt) with ([p] ++ [n; b] ++ tt) in *. finish_op W Hne.
  - (* take *) intros psp ksp x p n tx Hp Hn Hx. split; [discriminate|]. intros lo hi W. cbn [g_op]. gs. tok_spans. note_ne.
    assert (Hne : p :: n :: tx <> []) by discriminate. finish_op W Hne.
  - (* top *) intros psp ksp x bsp col p n tx b tc Hp Hn Hx Hb Hc. split; [discriminate|]. intros lo hi W. cbn [g_op]. gs. tok_spans. note_ne.
    assert (Hne : p :: n :: tx ++ b :: tc <> []) by discriminate. finish_op W Hne.
  - (* project *) intros psp ksp cols p n tc Hp Hn Hc. split; [discriminate|]. intros lo hi W. cbn [g_op]. gs. tok_spans. note_ne.
    assert (Hne : p :: n :: tc <> []) by discriminate. finish_op W Hne.
  - (* extend *) intros psp ksp cols p n tc Hp Hn Hc. split; [discriminate|]. intros lo hi W. cbn [g_op]. gs. tok_spans. note_ne.
    assert (Hne : p :: n :: tc <> []) by discriminate. finish_op W Hne.
  - (* summarize *) intros psp ksp cols bsp gs0 p n body Hp Hn Hs. split; [discriminate|]. intros lo hi W. cbn [g_op]. gs.
    assert (Hne : p :: n :: body <> []) by discriminate.
    destruct Hs; tok_spans; note_ne; finish_op W Hne.
  - (* join *) intros psp ksp kindsp kasp flavor lsp rsrc rops rsp osp conds p n tk tl tsrc tro tr ton tc Hp Hn Hk Hl Hsrc Hops IHops Hr Hon Hc Hcne.
    split; [discriminate|]. intros lo hi W. cbn [g_op]. gs.
    assert (Hne : p :: n :: tk ++ tl :: (tsrc :: tro) ++ tr :: ton :: tc <> []) by discriminate.
    pose proof (within_tight _ _ _ W Hne) as Wt.
    assert (Wtab : toks_within (lo_of (p :: n :: tk ++ tl :: (tsrc :: tro) ++ tr :: ton :: tc)) (hi_of (p :: n :: tk ++ tl :: (tsrc :: tro) ++ tr :: ton :: tc)) (tsrc :: tro)).
    { destruct (within_single _ _ _ _ Wt) as [_ W2]. destruct (within_single _ _ _ _ W2) as [_ W3]. destruct (within_app _ _ _ _ W3) as [_ W4].
      destruct (within_single _ _ _ _ W4) as [_ W5]. destruct (within_app _ _ _ _ W5) as [W6 _]. exact W6. }
    rewrite (tab_span _ _ _ _ _ _ Hsrc IHops Wtab).
    destruct Hk; cbn [option_map]; rewrite ?fspan_node, ?fspan_none; tok_spans; note_ne; split_within; child_spans; slice_spans;
      (match goal with |- _ = ext ?TS => transitivity (Some (lo_of TS, hi_of TS)); [|symmetry; exact (ext_some _ Hne)] end);
      (apply union_spans_bounds; [insides | starts_tac | ends_tac]).
  - (* as *) intros psp ksp i p n ti Hp Hn Hi. split; [discriminate|]. intros lo hi W. cbn [g_op]. gs. tok_spans.
    assert (Hne : [p; n; ti] <> []) by discriminate. finish_op W Hne.
  - (* render *) intros psp ksp chart wsp lsp props rsp p n tch tw Hp Hn Hch Hw. split; [discriminate|]. intros lo hi W. cbn [g_op]. gs.
    assert (Hne : p :: n :: tch :: tw <> []) by discriminate.
    destruct Hw; tok_spans; note_ne; finish_op W Hne.
  - (* no operators *) left. auto.
  - (* one more operator *) intros o to os tos Ho [Hne IHo] Hos IHos. right.
    destruct IHos as [[-> ->]|[Hnt IHl]].
    + rewrite app_nil_r. split; [exact Hne|]. cbn [map]. intros lo hi W. rewrite (IHo _ _ W).
      apply list_spans_one; [exact Hne|reflexivity|exact W].
    + split; [ne_tac|]. cbn [map]. intros lo hi W. destruct (within_app _ _ _ _ W) as [W1 _]. rewrite (IHo _ _ W1).
      apply list_spans_cons0; [exact Hne|exact Hnt|reflexivity|exact IHl|exact W].
Qed.

(** ** statements and programs *)
Theorem stmt_span s ts : toks_stmt s ts -> ts <> [] /\ forall lo hi, toks_within lo hi ts -> gspan (g_stmt s) = ext ts.
Proof.
  intros H. destruct H as [ksp i asp x tk ti ta tx Hk Hi Ha Hx|t ts (tsrc0 & tro & -> & Hs & Ho)].
  - split; [discriminate|]. intros lo hi W. cbn [g_stmt]. gs. tok_spans. note_ne.
    assert (Hne : tk :: ti :: ta :: tx <> []) by discriminate. finish_op W Hne.
  - split; [discriminate|]. intros lo hi W. cbn [g_stmt]. unfold g_tabular.
    apply (tab_span _ _ _ _ lo hi); [exact Hs|apply (proj2 op_span); exact Ho|exact W].
Qed.

(** spans in order inside [lo, hi] *)
Inductive spans_within : nat -> nat -> list span -> Prop :=
| sw_nil lo hi : lo <= hi -> spans_within lo hi []
| sw_cons lo hi a b r : lo <= a -> a <= b -> b <= hi -> spans_within b hi r -> spans_within lo hi (Some (a, b) :: r).

Lemma spans_within_weaken lo lo' hi L : lo' <= lo -> spans_within lo hi L -> spans_within lo' hi L.
Proof. intros H W. destruct W; constructor; try lia; assumption. Qed.

Lemma within_app_strong a : forall b lo hi, toks_within lo hi (a ++ b) -> a <> [] -> toks_within lo (hi_of a) a /\ toks_within (hi_of a) hi b.
Proof.
  induction a as [|t a IH]; intros b lo hi W Hne; [congruence|]. cbn [app] in W.
  inversion W as [|lo1 hi1 t1 ts1 H1 H2 H3 W']; subst.
  destruct a as [|t2 a'].
  - cbn [app] in W'. cbn [hi_of last]. split; [|exact W']. constructor; try lia. constructor. lia.
  - destruct (IH b (tend t) hi W' ltac:(discriminate)) as [Wa Wb]. rewrite hi_of_cons by discriminate. split; [|exact Wb].
    constructor; try lia; [|exact Wa]. pose proof (toks_within_le _ _ _ Wa). lia.
Qed.

(** the statements of a program lie in the source in order, each spanning exactly its tokens *)
Theorem prog_spans ss ts : toks_prog ss ts -> forall lo hi, toks_within lo hi ts -> spans_within lo hi (map gspan (map g_stmt ss)).
Proof.
  induction 1 as [|semi ss rest Hsemi Hp IH|s ts Hs|s ts semi ss rest Hs Hsemi Hp IH]; intros lo hi W; cbn [map].
  - constructor. exact (toks_within_le _ _ _ W).
  - inversion W as [|lo1 hi1 t1 ts1 H1 H2 H3 W']; subst. eapply spans_within_weaken; [|apply IH; exact W']. lia.
  - destruct (stmt_span _ _ Hs) as [Hne Hsp]. rewrite (Hsp _ _ W). rewrite ext_some by exact Hne.
    pose proof (ext_inside _ _ _ W) as Hin. rewrite ext_some in Hin by exact Hne. destruct Hin as (H1 & H2 & H3).
    constructor; try assumption. constructor. exact H3.
  - destruct (stmt_span _ _ Hs) as [Hne Hsp].
    destruct (within_app_strong _ _ _ _ W Hne) as [W1 W2]. rewrite (Hsp _ _ W1). rewrite ext_some by exact Hne.
    pose proof (ext_inside _ _ _ W1) as Hin. rewrite ext_some in Hin by exact Hne. destruct Hin as (H1 & H2 & H3).
    inversion W2 as [|lo1 hi1 t1 ts1 G1 G2 G3 W']; subst.
    constructor; try assumption; [pose proof (toks_within_le _ _ _ W'); lia|].
    eapply spans_within_weaken; [|apply IH; exact W']. lia.
Qed.

(** C10 for a successful parse: the tree represents the source's tokens (so every recorded
    position is the span of its token), the tokens are in order inside the source, and the
    statements' overall spans are their token extents, in order, inside the source. *)
Theorem parse_spans s ss : parse s = ParseOk ss ->
  toks_prog ss (scan s) /\ toks_within 0 (length s) (scan s) /\ spans_within 0 (length s) (map gspan (map g_stmt ss)).
Proof.
  intros H. pose proof (ParserSoundStmt.parse_sound _ _ H) as Hp. pose proof (scan_within s) as W.
  repeat split; [exact Hp|exact W|]. eapply prog_spans; eassumption.
Qed.
