(** * C02: sort-term defaults and the order of summarize's columns. *)
From PQL Require Import Model.Compile Spec.FlattenStmt.
From Coq Require Import String.
Local Open Scope list_scope.

(** a sort term as the grammar reads it ([toks_sort_term], the specification C07/C08 are proved
    against): without `asc`/`desc` the term is descending; without `nulls first`/`nulls last` nulls
    come first exactly when the term is ascending - so the default is descending with nulls last,
    and ascending puts nulls first unless stated *)
Theorem sort_term_defaults t ts : toks_sort_term t ts ->
  (st_ascspan t = None -> st_asc t = false) /\ (st_nullsspan t = None -> st_nullsfirst t = st_asc t).
Proof.
  intros H. destruct H as [x asc asp dflt nf nsp tx ta tn Hx Hd Hn]. cbn [st_asc st_ascspan st_nullsfirst st_nullsspan].
  split.
  - intros E. destruct Hd as [|sp t0 (Hk & Hv & Hs)|sp t0 (Hk & Hv & Hs)]; [reflexivity| |]; subst; discriminate.
  - intros E. destruct Hn as [|t1 t2 _ _|t1 t2 _ _]; try discriminate.
    destruct Hd; reflexivity.
Qed.

(** and each flag is printed as such: ASC / DESC, NULLS FIRST / NULLS LAST *)
Theorem sort_term_rendering c t px : wexpr c (st_x t) = Ok px ->
  write_sort c [t] = Ok (lit " ORDER BY " ++ px ++ (if st_asc t then lit " ASC" else lit " DESC")
                          ++ (if st_nullsfirst t then lit " NULLS FIRST" else lit " NULLS LAST")).
Proof. intros H. unfold write_sort. cbn [map sequence bind]. rewrite H. cbn [bind join_pieces]. reflexivity. Qed.

(** summarize lists its group keys before its aggregates *)
Theorem summarize_keys_first source c n src p k cols b gs g cs gb :
  write_ext_cols source c gs = Ok g -> write_ext_cols source c cols = Ok cs ->
  (match gs with
   | [] => Ok []
   | _ => do ks <- sequence (map (fun col => wexpr c (ec_x col)) gs); Ok (lit " GROUP BY " ++ join_pieces (lit ", ") ks)
   end) = Ok gb ->
  write_subq source c (mkSubq n src (Some (OSummarize p k cols b gs)) None None) =
  Ok ((lit "SELECT " ++ join_pieces (lit ", ") (g ++ cs) ++ lit " FROM " ++ render_source src ++ gb) ++ [] ++ []).
Proof.
  intros Hg Hc Hb. unfold write_subq. cbn [sq_op sq_source sq_sort sq_take]. rewrite Hg. cbn [bind]. rewrite Hc. cbn [bind].
  rewrite Hb. reflexivity.
Qed.
