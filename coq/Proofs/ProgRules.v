(** * ProgRules (C13): a whole program compiles exactly when it obeys the documented rules.
    Lifts [wx_ok_iff_rules] (expressions) and [stmt_loop_ok_iff_rules] (the let/query loop) through
    splitQueries and the SELECT writer: at whatever depth (nested joins) an operator sits, its
    expressions are written in the right mode exactly once, so Compile fails exactly when one of
    them breaks a rule, a join has an unknown kind, or there is not exactly one query. *)
From PQL Require Import Model.Trans Spec.PqlSem Spec.Rules Spec.FlattenStmt Proofs.ExprInd Proofs.MeaningFacts Proofs.WriterFacts Proofs.TableFacts
  Proofs.RulesFacts Proofs.PipelineFacts Proofs.JoinFacts Proofs.ParserSound Proofs.ParserSoundStmt Proofs.ParserReject.
From Coq Require Import String Lia.
Local Open Scope list_scope.
Local Open Scope nat_scope.
Local Notation length := List.length (only parsing).

(** ** trees the parser can build *)
Definition wf_term (t : sort_term) : bool := wf_expr (st_x t).
Definition wf_col (c : ext_col) : bool := wf_expr (ec_x c).
Definition wf_proj (c : proj_col) : bool := match pc_x c with Some x => wf_expr x | None => true end.

Fixpoint wf_op (o : operator) : bool :=
  match o with
  | OCount _ _ | OAs _ _ _ | ORender _ _ _ _ _ _ _ => true
  | OWhere _ _ x => wf_expr x
  | OSort _ _ ts => forallb wf_term ts
  | OTake _ _ n => wf_expr n
  | OTop _ _ n _ c => wf_expr n && wf_term c
  | OProject _ _ cols => forallb wf_proj cols
  | OExtend _ _ cols => forallb wf_col cols
  | OSummarize _ _ cols _ gs => forallb wf_col cols && forallb wf_col gs
  | OJoin _ _ _ _ _ _ _ rops _ _ conds => forallb wf_op rops && forallb wf_expr conds
  end.

Fixpoint wf_prog (ss : list stmt) : bool :=
  match ss with
  | [] => true
  | SLet _ _ _ x :: r => wf_expr x && wf_prog r
  | STab t :: r => forallb wf_op (tops t) && wf_prog r
  end.

Section Prog.
Variable source : str.
Variable sc : scope.
Let b := bnd sc.
Let c := mkCtx sc ModeDefault.

(** the join-related rules of an operator, and the rules of the expressions it carries *)
Fixpoint jrules (o : operator) : bool :=
  match o with
  | OJoin _ _ _ _ fl _ _ rops _ _ conds => forallb jrules rops && join_kind_ok fl && forallb (cond_rules b) conds
  | _ => true
  end.

Fixpoint erules (o : operator) : bool :=
  match o with
  | OCount _ _ | OAs _ _ _ | ORender _ _ _ _ _ _ _ => true
  | OWhere _ _ x => expr_rules b RDefault x
  | OSort _ _ ts => forallb (term_rules b) ts
  | OTake _ _ n => expr_rules b RDefault n
  | OTop _ _ n _ t => expr_rules b RDefault n && term_rules b t
  | OProject _ _ cols => forallb (proj_rules b) cols
  | OExtend _ _ cols => forallb (col_rules b) cols
  | OSummarize _ _ cols _ gs => forallb (col_rules b) cols && forallb (col_rules b) gs
  | OJoin _ _ _ _ _ _ _ rops _ _ _ => forallb erules rops
  end.

Lemma forallb_and {A} (p q : A -> bool) l : forallb (fun x => p x && q x) l = forallb p l && forallb q l.
Proof.
  induction l as [|a r IH]; cbn [forallb]; [reflexivity|]. rewrite IH.
  destruct (p a), (q a), (forallb p r), (forallb q r); reflexivity.
Qed.

Lemma forallb_ext_in {A} (p q : A -> bool) l : Forall (fun x => p x = q x) l -> forallb p l = forallb q l.
Proof. induction 1 as [|a r Ha _ IH]; cbn [forallb]; [reflexivity|]. rewrite Ha, IH. reflexivity. Qed.

Lemma op_rules_split o : op_rules b o = jrules o && erules o.
Proof.
  induction o using operator_ind'.
  - destruct o; try discriminate; cbn [op_rules jrules erules andb]; reflexivity.
  - cbn [op_rules jrules erules]. rewrite (forallb_ext_in _ (fun x => jrules x && erules x) rops H), forallb_and.
    destruct (join_kind_ok fl), (forallb jrules rops), (forallb erules rops), (forallb (cond_rules b) conds); reflexivity.
Qed.

(** ** what the SELECT writer checks of a subquery *)
Definition wrules (o : operator) : bool :=
  match o with
  | OWhere _ _ x => expr_rules b RDefault x
  | OProject _ _ cols => forallb (proj_rules b) cols
  | OExtend _ _ cols => forallb (col_rules b) cols
  | OSummarize _ _ cols _ gs => forallb (col_rules b) cols && forallb (col_rules b) gs
  | _ => true
  end.

Definition subq_rules (s : subq) : bool :=
  (match sq_op s with Some o => wrules o | None => true end)
  && (match sq_sort s with Some ts => forallb (term_rules b) ts | None => true end)
  && (match sq_take s with Some n => expr_rules b RDefault n | None => true end).

Definition wfq (s : subq) : bool :=
  (match sq_op s with Some o => wf_op o | None => true end)
  && (match sq_sort s with Some ts => forallb wf_term ts | None => true end)
  && (match sq_take s with Some n => wf_expr n | None => true end).

Lemma wexpr_rules e : wf_expr e = true -> is_ok (wexpr c e) = expr_rules b RDefault e.
Proof. intros H. unfold wexpr. rewrite (wx_ok_iff_rules c e H WPlain). reflexivity. Qed.

Lemma is_ok_ext_cols cols : forallb wf_col cols = true -> is_ok (write_ext_cols source c cols) = forallb (col_rules b) cols.
Proof.
  intros Hwf. unfold write_ext_cols. rewrite is_ok_sequence.
  induction cols as [|a r IH]; cbn [map forallb] in *; [reflexivity|]. apply andb_prop in Hwf as [Ha Hr].
  rewrite (IH Hr). f_equal. rewrite is_ok_bind_total by (intros ?; reflexivity). apply wexpr_rules. exact Ha.
Qed.

Lemma is_ok_sort terms : forallb wf_term terms = true -> is_ok (write_sort c terms) = forallb (term_rules b) terms.
Proof.
  intros Hwf. unfold write_sort. rewrite is_ok_bind_total by (intros ?; reflexivity). rewrite is_ok_sequence.
  induction terms as [|a r IH]; cbn [map forallb] in *; [reflexivity|]. apply andb_prop in Hwf as [Ha Hr].
  rewrite (IH Hr). f_equal. rewrite is_ok_bind_total by (intros ?; reflexivity). apply wexpr_rules. exact Ha.
Qed.

Lemma is_ok_bind3 {A B C D} (r1 : res A) (r2 : res B) (r3 : res C) (k : A -> B -> C -> res D) :
  (forall x y z, is_ok (k x y z) = true) ->
  is_ok (bind r1 (fun x => bind r2 (fun y => bind r3 (k x y)))) = is_ok r1 && is_ok r2 && is_ok r3.
Proof. intros H. destruct r1, r2, r3; cbn; try reflexivity. apply H. Qed.

Lemma write_subq_rules s : wfq s = true -> is_ok (write_subq source c s) = subq_rules s.
Proof.
  intros Hwf. unfold wfq in Hwf. apply andb_prop in Hwf as [Hwf Htake]. apply andb_prop in Hwf as [Hop Hsort].
  unfold write_subq, subq_rules. rewrite is_ok_bind3 by (intros; reflexivity).
  f_equal; [f_equal|].
  - destruct (sq_op s) as [o|]; [|reflexivity]. destruct o; cbn [wrules wf_op] in *; try reflexivity.
    + rewrite is_ok_bind_total by (intros ?; reflexivity). apply wexpr_rules. exact Hop.
    + rewrite is_ok_bind_total by (intros ?; reflexivity). rewrite is_ok_sequence.
      induction cols as [|a r IH]; cbn [map forallb] in *; [reflexivity|]. apply andb_prop in Hop as [Ha Hr].
      rewrite (IH Hr). f_equal. rewrite is_ok_bind_total by (intros ?; reflexivity).
      unfold proj_rules, wf_proj in *. destruct (pc_x a); apply wexpr_rules; [exact Ha|reflexivity].
    + rewrite is_ok_bind_total by (intros ?; reflexivity). apply is_ok_ext_cols. exact Hop.
    + apply andb_prop in Hop as [Hc Hg].
      rewrite is_ok_bind. rewrite <- (is_ok_ext_cols groupby Hg).
      destruct (write_ext_cols source c groupby) as [gs|] eqn:Eg; cbn [is_ok]; [|rewrite Bool.andb_false_r; reflexivity].
      assert (Hgr : forallb (col_rules b) groupby = true) by (rewrite <- (is_ok_ext_cols groupby Hg), Eg; reflexivity).
      rewrite is_ok_bind. rewrite <- (is_ok_ext_cols cols Hc).
      destruct (write_ext_cols source c cols) as [cs|]; cbn [is_ok]; [|reflexivity].
      rewrite is_ok_bind_total by (intros ?; reflexivity).
      destruct groupby as [|g0 gr]; [reflexivity|].
      rewrite is_ok_bind_total by (intros ?; reflexivity). rewrite is_ok_sequence.
      (* the GROUP BY keys are the same expressions again *)
      assert (E : forall l, forallb wf_col l = true -> forallb is_ok (map (fun col => wexpr c (ec_x col)) l) = forallb (col_rules b) l).
      { induction l as [|a r IH]; cbn [map forallb]; [reflexivity|]. intros H. apply andb_prop in H as [Ha Hr].
        rewrite (IH Hr). f_equal. apply wexpr_rules. exact Ha. }
      rewrite (E _ Hg), Hgr. reflexivity.
  - destruct (sq_sort s); [apply is_ok_sort; exact Hsort|reflexivity].
  - destruct (sq_take s); [|reflexivity]. rewrite is_ok_bind_total by (intros ?; reflexivity). apply wexpr_rules. exact Htake.
Qed.

Lemma write_ctes_rules l : forallb wfq l = true ->
  is_ok (write_ctes source c l) = forallb subq_rules l.
Proof.
  induction l as [|s r IH]; intros Hwf; cbn [write_ctes forallb] in *; [reflexivity|]. apply andb_prop in Hwf as [Hs Hr].
  rewrite is_ok_bind2 by (intros ? ?; reflexivity). rewrite (write_subq_rules s Hs), (IH Hr). reflexivity.
Qed.

(** ** splitQueries *)
Lemma forallb_snoc {A} (p : A -> bool) l a : forallb p (l ++ [a]) = forallb p l && p a.
Proof. rewrite forallb_app. cbn [forallb]. rewrite Bool.andb_true_r. reflexivity. Qed.

Lemma set_last_snoc d s f : set_last (d ++ [s]) f = d ++ [f s].
Proof. unfold set_last. rewrite rev_app_distr. cbn [rev app]. rewrite rev_involutive. reflexivity. Qed.

Lemma last_snoc (dst : list subq) : last_opt dst = None /\ dst = [] \/ exists init s, dst = init ++ [s] /\ last_opt dst = Some s.
Proof.
  unfold last_opt. destruct (rev dst) as [|x l] eqn:E.
  - left. split; [reflexivity|]. apply (f_equal (@rev subq)) in E. rewrite rev_involutive in E. exact E.
  - right. exists (rev l), x. split; [|reflexivity]. apply (f_equal (@rev subq)) in E. rewrite rev_involutive in E. exact E.
Qed.

(** when sort / take / top attach to the last subquery it has no ORDER BY / LIMIT yet (generated conditions) *)
Lemma attach_state dst ds :
  (split_cond_sort (state_of dst ds) = false -> exists init s, dst = init ++ [s] /\ sq_sort s = None /\ sq_take s = None) /\
  (split_cond_take (state_of dst ds) = false -> exists init s, dst = init ++ [s] /\ sq_take s = None) /\
  (split_cond_top (state_of dst ds) = false -> exists init s, dst = init ++ [s] /\ sq_sort s = None /\ sq_take s = None).
Proof.
  unfold state_of. destruct (Nat.eqb (length dst) ds); [repeat split; intros H; discriminate H|].
  destruct (last_snoc dst) as [(E & _)|(init & s & -> & E)]; rewrite E; [repeat split; intros H; discriminate H|].
  unfold split_cond_sort, split_cond_take, split_cond_top. cbn [ss_nil ss_can_attach ss_has_sort ss_has_take].
  repeat split; intros H; exists init, s; (split; [reflexivity|]);
    destruct (sq_sort s), (sq_take s), (match sq_op s with Some o => can_attach_sort (op_nkind o) | None => can_attach_sort_default end);
    try discriminate H; repeat split; reflexivity.
Qed.

Lemma fresh_ok dst ds src : wfq (chain_subquery dst ds src) = true /\ subq_rules (chain_subquery dst ds src) = true.
Proof. split; reflexivity. Qed.

Lemma is_ok_bind_const {A B} (r : res A) (k : A -> res B) (K : bool) : (forall a, is_ok (k a) = K) -> is_ok (bind r k) = is_ok r && K.
Proof. intros H. destruct r; cbn; [apply H|reflexivity]. Qed.

Lemma join_kind_check (fl : option ident) :
  let flavor_name := match fl with Some f => iname f | None => w_innerunique end in
  is_ok (if str_eqb flavor_name w_inner || str_eqb flavor_name w_innerunique then Ok false
         else if str_eqb flavor_name w_leftouter then Ok true
         else Err (match fl with Some f => span_start (ispan f) | None => None end)) = join_kind_ok fl.
Proof.
  cbn zeta. destruct fl as [f|]; cbn [join_kind_ok]; [|reflexivity].
  unfold mem, join_kinds. cbn [existsb].
  change (L "inner") with w_inner. change (L "innerunique") with w_innerunique. change (L "leftouter") with w_leftouter.
  destruct (str_eqb (iname f) w_inner), (str_eqb (iname f) w_innerunique), (str_eqb (iname f) w_leftouter); reflexivity.
Qed.

(** the join condition *)
Lemma bare_name_rules y : match bare_name sc y with Some _ => is_bare_name b y = true | None => is_bare_name b y = false end.
Proof.
  unfold bare_name, is_bare_name. destruct y as [ps| | | | | | |]; try reflexivity.
  destruct ps as [|p [|p2 r]]; try reflexivity.
  destruct (iquoted p); cbn [negb andb]; [reflexivity|].
  rewrite <- assoc_builtin. destruct (assoc_str builtin_idents (iname p)); cbn [negb andb]; [reflexivity|].
  unfold b, bnd. destruct (scope_get sc (iname p)); reflexivity.
Qed.

Lemma rewrite_cond_rules y : expr_rules b RJoin (rewrite_simple_cond sc y) = cond_rules b y.
Proof.
  unfold rewrite_simple_cond, cond_rules. pose proof (bare_name_rules y) as H.
  destruct (bare_name sc y) as [p|]; rewrite H; [reflexivity|reflexivity].
Qed.

Lemma rewrite_cond_wf y : wf_expr y = true -> wf_expr (rewrite_simple_cond sc y) = true.
Proof. intros H. unfold rewrite_simple_cond. destruct (bare_name sc y); [reflexivity|exact H]. Qed.

Lemma build_cond_spec conds : forallb wf_expr conds = true ->
  wf_expr (build_join_cond sc conds) = true /\ expr_rules b RJoin (build_join_cond sc conds) = forallb (cond_rules b) conds.
Proof.
  intros Hwf. unfold build_join_cond. destruct conds as [|c0 r].
  { split; [reflexivity|]. cbn [expr_rules forallb iquoted negb andb iname]. destruct (b w_true || mem w_true r_consts); reflexivity. }
  cbn [forallb] in *. apply andb_prop in Hwf as [H0 Hr].
  assert (G : forall r acc, forallb wf_expr r = true -> wf_expr acc = true ->
            wf_expr (fold_left (fun x y => EBin x None KAnd (rewrite_simple_cond sc y)) r acc) = true /\
            expr_rules b RJoin (fold_left (fun x y => EBin x None KAnd (rewrite_simple_cond sc y)) r acc)
            = expr_rules b RJoin acc && forallb (cond_rules b) r).
  { induction r0 as [|y r0 IH]; intros acc Hr0 Hacc; cbn [fold_left forallb] in *; [rewrite Bool.andb_true_r; split; [exact Hacc|reflexivity]|].
    apply andb_prop in Hr0 as [Hy Hr0].
    destruct (IH (EBin acc None KAnd (rewrite_simple_cond sc y)) Hr0) as [W R].
    { cbn [wf_expr]. rewrite Hacc, (rewrite_cond_wf y Hy). reflexivity. }
    split; [exact W|]. rewrite R. cbn [expr_rules]. rewrite rewrite_cond_rules. rewrite Bool.andb_assoc. reflexivity. }
  destruct (G r (rewrite_simple_cond sc c0) Hr (rewrite_cond_wf c0 H0)) as [W R].
  split; [exact W|]. rewrite R, rewrite_cond_rules. reflexivity.
Qed.

Definition Spec (o : operator) : Prop := forall ds src dst, wf_op o = true -> forallb wfq dst = true ->
  is_ok (split_op sc ds src dst o) = jrules o /\
  forall dst', split_op sc ds src dst o = Ok dst' ->
    forallb wfq dst' = true /\ forallb subq_rules dst' = forallb subq_rules dst && erules o.

Lemma sr_set_sort init s terms : sq_sort s = None ->
  forallb subq_rules (init ++ [mkSubq (sq_name s) (sq_source s) (sq_op s) (Some terms) (sq_take s)])
  = forallb subq_rules (init ++ [s]) && forallb (term_rules b) terms.
Proof.
  intros H. rewrite !forallb_snoc. generalize (forallb subq_rules init) as I0. intros I0. unfold subq_rules. cbn [sq_op sq_sort sq_take]. rewrite H.
  destruct I0, (match sq_op s with Some o => wrules o | None => true end),
    (forallb (term_rules b) terms), (match sq_take s with Some n => expr_rules b RDefault n | None => true end); reflexivity.
Qed.

Lemma sr_set_take init s n : sq_take s = None ->
  forallb subq_rules (init ++ [mkSubq (sq_name s) (sq_source s) (sq_op s) (sq_sort s) (Some n)])
  = forallb subq_rules (init ++ [s]) && expr_rules b RDefault n.
Proof.
  intros H. rewrite !forallb_snoc. generalize (forallb subq_rules init) as I0. intros I0. unfold subq_rules. cbn [sq_op sq_sort sq_take]. rewrite H.
  destruct I0, (match sq_op s with Some o => wrules o | None => true end),
    (match sq_sort s with Some ts => forallb (term_rules b) ts | None => true end), (expr_rules b RDefault n); reflexivity.
Qed.

Lemma sr_set_top init s n col : sq_sort s = None -> sq_take s = None ->
  forallb subq_rules (init ++ [mkSubq (sq_name s) (sq_source s) (sq_op s) (Some [col]) (Some n)])
  = forallb subq_rules (init ++ [s]) && (expr_rules b RDefault n && term_rules b col).
Proof.
  intros H1 H2. rewrite !forallb_snoc. generalize (forallb subq_rules init) as I0. intros I0. unfold subq_rules. cbn [sq_op sq_sort sq_take forallb]. rewrite H1, H2.
  destruct I0, (match sq_op s with Some o => wrules o | None => true end),
    (term_rules b col), (expr_rules b RDefault n); reflexivity.
Qed.

Lemma wfq_set init s (so : option (list sort_term)) (tk : option expr) :
  forallb wfq (init ++ [s]) = true ->
  (match so with Some ts => forallb wf_term ts | None => true end) = true ->
  (match tk with Some n => wf_expr n | None => true end) = true ->
  forallb wfq (init ++ [mkSubq (sq_name s) (sq_source s) (sq_op s) so tk]) = true.
Proof.
  rewrite !forallb_snoc. intros H Hs Ht. apply andb_prop in H as [Hi Hq]. rewrite Hi. cbn [andb].
  unfold wfq in *. cbn [sq_op sq_sort sq_take]. apply andb_prop in Hq as [Hq _]. apply andb_prop in Hq as [Hq _].
  rewrite Hq, Hs, Ht. reflexivity.
Qed.

Lemma snoc_case dst s e : forallb wfq dst = true -> wfq s = true -> subq_rules s = e ->
  forallb wfq (dst ++ [s]) = true /\ forallb subq_rules (dst ++ [s]) = forallb subq_rules dst && e.
Proof. intros Hd Hs He. rewrite !forallb_snoc, Hd, Hs, He. split; reflexivity. Qed.

Ltac plain_case Hwf Hdst :=
  split; [reflexivity|]; intros dst' [= <-]; apply snoc_case;
    [exact Hdst
    |unfold wfq; cbn [sq_op sq_sort sq_take chain_subquery wf_op andb]; rewrite ?Hwf; reflexivity
    |unfold subq_rules; cbn [sq_op sq_sort sq_take chain_subquery wrules andb]; rewrite ?Bool.andb_true_r; reflexivity].

Lemma spec_plain o : is_join o = false -> Spec o.
Proof.
  intros Hj ds src dst Hwf Hdst. destruct o; try discriminate Hj; cbn [split_op jrules erules wf_op] in *.
  - (* count *) plain_case Hwf Hdst.
  - (* where *) plain_case Hwf Hdst.
  - (* sort *) split; [reflexivity|]. intros dst' [= <-].
    destruct (split_cond_sort (state_of dst ds)) eqn:Ec.
    + rewrite set_last_snoc. apply snoc_case; [exact Hdst| |].
      * unfold wfq. cbn [sq_op sq_sort sq_take chain_subquery andb]. rewrite Hwf. reflexivity.
      * unfold subq_rules. cbn [sq_op sq_sort sq_take chain_subquery andb]. rewrite Bool.andb_true_r. reflexivity.
    + destruct (proj1 (attach_state dst ds) Ec) as (init & s & -> & Hs & Ht). rewrite set_last_snoc. split.
      * apply wfq_set; [exact Hdst|exact Hwf|]. rewrite forallb_snoc in Hdst. apply andb_prop in Hdst as [_ Hq]. unfold wfq in Hq.
        apply andb_prop in Hq as [_ Hq]. exact Hq.
      * apply sr_set_sort. exact Hs.
  - (* take *) split; [reflexivity|]. intros dst' [= <-].
    destruct (split_cond_take (state_of dst ds)) eqn:Ec.
    + rewrite set_last_snoc. apply snoc_case; [exact Hdst| |].
      * unfold wfq. cbn [sq_op sq_sort sq_take chain_subquery andb]. rewrite Hwf. reflexivity.
      * unfold subq_rules. cbn [sq_op sq_sort sq_take chain_subquery andb]. reflexivity.
    + destruct (proj1 (proj2 (attach_state dst ds)) Ec) as (init & s & -> & Ht). rewrite set_last_snoc. split.
      * apply wfq_set; [exact Hdst| |exact Hwf]. rewrite forallb_snoc in Hdst. apply andb_prop in Hdst as [_ Hq]. unfold wfq in Hq.
        apply andb_prop in Hq as [Hq _]. apply andb_prop in Hq as [_ Hq]. exact Hq.
      * apply sr_set_take. exact Ht.
  - (* top *) apply andb_prop in Hwf as [Hn Hc]. split; [reflexivity|]. intros dst' [= <-].
    destruct (split_cond_top (state_of dst ds)) eqn:Ec.
    + rewrite set_last_snoc. apply snoc_case; [exact Hdst| |].
      * unfold wfq. cbn [sq_op sq_sort sq_take chain_subquery andb forallb]. rewrite Hn, Hc. reflexivity.
      * unfold subq_rules. cbn [sq_op sq_sort sq_take chain_subquery andb forallb]. rewrite Bool.andb_true_r. apply Bool.andb_comm.
    + destruct (proj2 (proj2 (attach_state dst ds)) Ec) as (init & s & -> & Hs & Ht). rewrite set_last_snoc. split.
      * apply wfq_set; [exact Hdst|cbn [forallb]; rewrite Hc; reflexivity|exact Hn].
      * apply sr_set_top; assumption.
  - (* project *) plain_case Hwf Hdst.
  - (* extend *) plain_case Hwf Hdst.
  - (* summarize *) plain_case Hwf Hdst.
  - (* as *) plain_case Hwf Hdst.
  - (* render *) plain_case Hwf Hdst.
Qed.

(** a sequence of operators (the loop of splitQueries, and the right-hand side of a join) *)
Lemma spec_fold ops : Forall Spec ops -> forall ds src dst, forallb wf_op ops = true -> forallb wfq dst = true ->
  is_ok (fold_res (split_op sc ds src) ops dst) = forallb jrules ops /\
  forall dst', fold_res (split_op sc ds src) ops dst = Ok dst' ->
    forallb wfq dst' = true /\ forallb subq_rules dst' = forallb subq_rules dst && forallb erules ops.
Proof.
  induction 1 as [|o r Ho _ IH]; intros ds src dst Hwf Hdst; cbn [fold_res forallb] in *.
  - split; [reflexivity|]. intros dst' [= <-]. rewrite Bool.andb_true_r. split; [exact Hdst|reflexivity].
  - apply andb_prop in Hwf as [Hwo Hwr]. destruct (Ho ds src dst Hwo Hdst) as [HA HB].
    destruct (split_op sc ds src dst o) as [d1|p] eqn:E; cbn [bind is_ok] in *.
    + destruct (HB d1 eq_refl) as [W1 R1]. destruct (IH ds src d1 Hwr W1) as [HA2 HB2]. split.
      * rewrite HA2, <- HA. reflexivity.
      * intros dst' Hd. destruct (HB2 dst' Hd) as [W2 R2]. split; [exact W2|]. rewrite R2, R1, Bool.andb_assoc. reflexivity.
    + split; [rewrite <- HA; reflexivity|]. intros dst' Hd. discriminate Hd.
Qed.

Lemma go_is_fold ds src : forall rops d,
  (fix go (l : list operator) (d : list subq) : res (list subq) :=
     match l with [] => Ok d | o' :: r => bind (split_op sc ds src d o') (fun d' => go r d') end) rops d
  = fold_res (split_op sc ds src) rops d.
Proof. induction rops as [|o r IH]; intros d; cbn [fold_res]; [reflexivity|]. destruct (split_op sc ds src d o); cbn [bind]; [apply IH|reflexivity]. Qed.

Lemma spec_join p k ks ka fl lp rsrc rops rp on conds : Forall Spec rops -> Spec (OJoin p k ks ka fl lp rsrc rops rp on conds).
Proof.
  intros Hall ds src dst Hwf Hdst. cbn [wf_op] in Hwf. apply andb_prop in Hwf as [Hwr Hwc].
  cbn [split_op jrules erules]. rewrite go_is_fold.
  destruct (spec_fold rops Hall (length dst) rsrc dst Hwr Hdst) as [HA HB].
  destruct (build_cond_spec conds Hwc) as [Wc Rc].
  pose proof (wx_ok_iff_rules (mkCtx sc ModeJoin) (build_join_cond sc conds) Wc WPlain) as Hcond. cbn [c_scope c_mode rmode_of] in Hcond.
  fold b in Hcond. rewrite Rc in Hcond. unfold wexpr.
  split.
  - rewrite (is_ok_bind_const _ _ (join_kind_ok fl && forallb (cond_rules b) conds)).
    + rewrite HA, Bool.andb_assoc. reflexivity.
    + intros d1. rewrite (is_ok_bind_const _ _ (forallb (cond_rules b) conds)); [rewrite join_kind_check; reflexivity|].
      intros outer. rewrite is_ok_bind_total by (intros ?; reflexivity). exact Hcond.
  - intros dst' Hd. apply bind_inv in Hd as (d1 & Hd1 & Hd). apply bind_inv in Hd as (outer & _ & Hd). apply bind_inv in Hd as (cond & _ & Hd).
    injection Hd as <-. destruct (HB d1 Hd1) as [W1 R1].
    rewrite !forallb_snoc. cbn [andb].
    destruct (Nat.eqb (length d1) (length dst)).
    + rewrite !forallb_snoc, W1, R1. split; [reflexivity|]. unfold subq_rules. cbn [sq_op sq_sort sq_take chain_subquery andb].
      rewrite !Bool.andb_true_r. reflexivity.
    + rewrite W1, R1. split; [reflexivity|]. unfold subq_rules. cbn [sq_op sq_sort sq_take andb]. rewrite !Bool.andb_true_r. reflexivity.
Qed.

Theorem spec_all o : Spec o.
Proof. induction o using operator_ind'; [apply spec_plain; assumption|apply spec_join; assumption]. Qed.

(** ** the query: splitQueries, then WITH ... SELECT *)
Lemma rev_nonempty {A} (l : list A) : l <> [] -> exists q r, rev l = q :: r.
Proof. intros H. destruct (rev l) as [|q r] eqn:E; [|eexists _, _; reflexivity]. apply (f_equal (@rev A)) in E. rewrite rev_involutive in E. contradiction. Qed.

Lemma forallb_rev {A} (p : A -> bool) l : forallb p (rev l) = forallb p l.
Proof. induction l as [|a r IH]; cbn [rev forallb]; [reflexivity|]. rewrite forallb_snoc, IH. apply Bool.andb_comm. Qed.

Theorem query_rules t : forallb wf_op (tops t) = true ->
  is_ok (bind (split_queries sc [] t) (fun subs =>
           match rev subs with
           | [] => Err None
           | q :: rctes =>
             let ctes := rev rctes in
             bind (write_ctes source c ctes) (fun w => bind (write_subq source c q) (fun body =>
               Ok ((match ctes with [] => [] | _ => lit "WITH " end) ++ w ++ body ++ lit ";")))
           end)) = forallb (op_rules b) (tops t).
Proof.
  intros Hwf. unfold split_queries.
  assert (Hall : Forall Spec (tops t)) by (apply Forall_forall; intros o _; apply spec_all).
  destruct (spec_fold (tops t) Hall (length (@nil subq)) (tsrc t) [] Hwf eq_refl) as [HA HB].
  rewrite (forallb_ext_in _ (fun o => jrules o && erules o) (tops t)) by (apply Forall_forall; intros o _; apply op_rules_split).
  rewrite forallb_and.
  destruct (fold_res (split_op sc (length (@nil subq)) (tsrc t)) (tops t) []) as [d1|p] eqn:E; cbn [bind is_ok] in *; [|rewrite <- HA; reflexivity].
  destruct (HB d1 eq_refl) as [W1 R1]. cbn [forallb andb] in R1. rewrite <- HA, <- R1. cbn [andb].
  set (subs := if Nat.eqb (length d1) (length (@nil subq)) then d1 ++ [chain_subquery d1 (length (@nil subq)) (tsrc t)] else d1).
  assert (Hsubs : subs <> [] /\ forallb wfq subs = true /\ forallb subq_rules subs = forallb subq_rules d1).
  { unfold subs. cbn [length]. destruct d1 as [|x d1']; cbn [length Nat.eqb].
    - repeat split; discriminate.
    - repeat split; [discriminate|exact W1]. }
  destruct Hsubs as (Hne & Ws & Rs). destruct (rev_nonempty subs Hne) as (q & rctes & Er). rewrite Er. cbn zeta.
  assert (Wrev : forallb wfq (q :: rctes) = true) by (rewrite <- Er, forallb_rev; exact Ws).
  assert (Rrev : forallb subq_rules (q :: rctes) = forallb subq_rules d1) by (rewrite <- Er, forallb_rev; exact Rs).
  cbn [forallb] in Wrev, Rrev. apply andb_prop in Wrev as [Wq Wr].
  rewrite is_ok_bind2 by (intros ? ?; reflexivity).
  rewrite write_ctes_rules by (rewrite forallb_rev; exact Wr). rewrite forallb_rev.
  rewrite (write_subq_rules q Wq). rewrite <- Rrev. apply Bool.andb_comm.
Qed.

End Prog.

(** ** whole programs *)
Lemma prog_rules_ext ss : forall b1 b2 q, (forall n, b1 n = b2 n) -> prog_rules b1 q ss = prog_rules b2 q ss.
Proof.
  assert (Hop : forall b1 b2, (forall n, b1 n = b2 n) -> forall o, op_rules b1 o = op_rules b2 o).
  { intros b1 b2 Hb. induction o using operator_ind'.
    - assert (Ht : forall l, forallb (term_rules b1) l = forallb (term_rules b2) l).
      { intros l. apply forallb_ext_in, Forall_forall. intros t _. unfold term_rules. apply expr_rules_ext. exact Hb. }
      assert (Hc : forall l, forallb (col_rules b1) l = forallb (col_rules b2) l).
      { intros l. apply forallb_ext_in, Forall_forall. intros t _. unfold col_rules. apply expr_rules_ext. exact Hb. }
      assert (Hp : forall l, forallb (proj_rules b1) l = forallb (proj_rules b2) l).
      { intros l. apply forallb_ext_in, Forall_forall. intros t _. unfold proj_rules. destruct (pc_x t); apply expr_rules_ext; exact Hb. }
      destruct o; try discriminate; cbn [op_rules]; unfold term_rules in *; rewrite ?Ht, ?Hc, ?Hp, ?(expr_rules_ext b1 b2 RDefault Hb); reflexivity.
    - cbn [op_rules]. f_equal; [f_equal|].
      + apply forallb_ext_in. exact H.
      + apply forallb_ext_in. apply Forall_forall. intros e _. unfold cond_rules, is_bare_name.
        rewrite (expr_rules_ext b1 b2 _ Hb). destruct e as [[|p0 [|? ?]]| | | | | | |]; try reflexivity. rewrite Hb. reflexivity. }
  induction ss as [|s r IH]; intros b1 b2 q Hb; cbn [prog_rules].
  - destruct q; [|reflexivity]. apply forallb_ext_in. apply Forall_forall. intros o _. apply Hop. exact Hb.
  - destruct s as [kw name a x|t].
    + destruct q; [apply IH; exact Hb|]. rewrite (expr_rules_ext b1 b2 RLet Hb). f_equal. apply IH. intros n. rewrite Hb. reflexivity.
    + destruct q; [reflexivity|]. apply IH. exact Hb.
Qed.

Theorem compile_stmts_rules source ss : forall sc q, wf_prog ss = true ->
  (match q with Some t => forallb wf_op (tops t) | None => true end) = true ->
  is_ok (bind (stmt_loop sc q ss) (fun st =>
    match snd st with
    | None => Err None
    | Some t =>
      bind (split_queries (fst st) [] t) (fun subs =>
        match rev subs with
        | [] => Err None
        | q :: rctes =>
          let ctes := rev rctes in
          bind (write_ctes source (mkCtx (fst st) ModeDefault) ctes) (fun w =>
            bind (write_subq source (mkCtx (fst st) ModeDefault) q) (fun body =>
              Ok ((match ctes with [] => [] | _ => lit "WITH " end) ++ w ++ body ++ lit ";")))
        end)
    end)) = prog_rules (bnd sc) q ss.
Proof.
  induction ss as [|s r IH]; intros sc q Hwf Hq; cbn [stmt_loop prog_rules wf_prog] in *.
  - cbn [bind snd fst]. destruct q as [t|]; [|reflexivity]. apply query_rules. exact Hq.
  - destruct s as [kw name a x|t].
    + apply andb_prop in Hwf as [Hx Hr]. destruct q as [t0|]; [apply IH; assumption|].
      unfold woperand. pose proof (wx_ok_iff_rules (mkCtx sc ModeLet) x Hx WOperand) as Hw. cbn [c_scope c_mode rmode_of] in Hw.
      destruct (wx (mkCtx sc ModeLet) WOperand x) as [v|p]; cbn [is_ok bind] in *; rewrite <- Hw; cbn [andb]; [|reflexivity].
      rewrite (IH _ None Hr eq_refl). apply prog_rules_ext. intros n. unfold bnd. cbn [scope_get].
      destruct (str_eqb (iname name) n); reflexivity.
    + apply andb_prop in Hwf as [Ht Hr]. destruct q as [t0|]; [reflexivity|]. apply IH; assumption.
Qed.

Theorem compile_program_rules source params ss : wf_prog ss = true ->
  is_ok (compile_stmts source params ss) = prog_rules (bnd (map (fun kv => (fst kv, [PRaw (snd kv)])) params)) None ss.
Proof. intros Hwf. unfold compile_stmts. apply (compile_stmts_rules source ss _ None Hwf eq_refl). Qed.

(** ** every tree the parser returns is of the shape assumed above *)
Lemma toks_wf_expr : (forall e ts, toks_expr e ts -> wf_expr e = true) /\ (forall l ts, toks_list l ts -> forallb wf_expr l = true) /\ (forall l ts, toks_args l ts -> forallb wf_expr l = true).
Proof.
  apply toks_expr_mutind; intros; cbn [wf_expr forallb]; try reflexivity; try assumption;
    repeat match goal with H : _ = true |- _ => rewrite H end; try reflexivity.
  - rewrite (binop_sql_total op) by assumption.
    assert (E : kind_eqb op KIn = false) by (destruct (kind_eqb op KIn) eqn:E; [apply kind_eqb_eq in E; contradiction|reflexivity]).
    rewrite E. reflexivity.
Qed.

Lemma sep_forallb {A} (P : A -> list token -> Prop) (p : A -> bool) : (forall a ts, P a ts -> p a = true) ->
  forall l ts, toks_sep P l ts -> forallb p l = true.
Proof. intros HP l ts H. induction H as [a ta Ha|a ta c r tr Ha _ _ IH]; cbn [forallb]; rewrite (HP _ _ Ha); [reflexivity|exact IH]. Qed.

Lemma toks_wf_term t ts : toks_sort_term t ts -> wf_term t = true.
Proof. intros H. destruct H. unfold wf_term. cbn [st_x]. eapply (proj1 toks_wf_expr); eassumption. Qed.
Lemma toks_wf_col c ts : toks_ext_col c ts -> wf_col c = true.
Proof. intros H. destruct H; unfold wf_col; cbn [ec_x]; eapply (proj1 toks_wf_expr); eassumption. Qed.
Lemma toks_wf_proj c ts : toks_proj_col c ts -> wf_proj c = true.
Proof. intros H. destruct H; unfold wf_proj; cbn [pc_x]; [reflexivity|]. eapply (proj1 toks_wf_expr); eassumption. Qed.

Lemma toks_wf_op : (forall o ts, toks_op o ts -> wf_op o = true) /\ (forall l ts, toks_ops l ts -> forallb wf_op l = true).
Proof.
  apply toks_op_mutind; intros; cbn [wf_op forallb]; try reflexivity;
    repeat match goal with
    | H : toks_expr _ _ |- _ => apply (proj1 toks_wf_expr) in H
    | H : toks_list _ _ |- _ => apply (proj1 (proj2 toks_wf_expr)) in H
    | H : toks_sort_term _ _ |- _ => apply toks_wf_term in H
    | H : toks_sep toks_sort_term _ _ |- _ => apply (sep_forallb _ _ toks_wf_term) in H
    | H : toks_sep toks_ext_col _ _ |- _ => apply (sep_forallb _ _ toks_wf_col) in H
    | H : toks_sep toks_proj_col _ _ |- _ => apply (sep_forallb _ _ toks_wf_proj) in H
    end;
    repeat match goal with H : _ = true |- _ => rewrite H end; try reflexivity.
  - (* summarize *) match goal with H : toks_summ _ _ _ _ |- _ => destruct H end;
      repeat match goal with H : toks_sep toks_ext_col _ _ |- _ => apply (sep_forallb _ _ toks_wf_col) in H; rewrite H end; reflexivity.
Qed.

Lemma toks_wf_prog ss ts : toks_prog ss ts -> wf_prog ss = true.
Proof.
  induction 1 as [|semi ss rest _ _ IH|s ts Hs|s ts semi ss rest Hs _ _ IH]; cbn [wf_prog]; try assumption; try reflexivity.
  - destruct Hs as [? ? ? ? ? ? ? ? ? ? ? Hx|t ts (a & b0 & -> & _ & Ho)]; cbn [wf_prog].
    + rewrite (proj1 toks_wf_expr _ _ Hx). reflexivity.
    + rewrite (proj2 toks_wf_op _ _ Ho). reflexivity.
  - destruct Hs as [? ? ? ? ? ? ? ? ? ? ? Hx|t ts (a & b0 & -> & _ & Ho)]; cbn [wf_prog].
    + rewrite (proj1 toks_wf_expr _ _ Hx). exact IH.
    + rewrite (proj2 toks_wf_op _ _ Ho). exact IH.
Qed.

(** Compile succeeds exactly when the source parses and the program obeys the rules *)
Theorem compile_exact params s :
  (exists ps, compile params s = COk ps) <->
  (exists ss, parse s = ParseOk ss /\ prog_rules (bnd (map (fun kv => (fst kv, [PRaw (snd kv)])) params)) None ss = true).
Proof.
  unfold compile. split.
  - intros (ps & H). destruct (parse s) as [ss|e| |] eqn:Ep; try discriminate H.
    exists ss. split; [reflexivity|]. rewrite <- (compile_program_rules s params ss (toks_wf_prog _ _ (parse_sound _ _ Ep))).
    destruct (compile_stmts s params ss); [reflexivity|discriminate H].
  - intros (ss & Ep & Hr). rewrite Ep. rewrite <- (compile_program_rules s params ss (toks_wf_prog _ _ (parse_sound _ _ Ep))) in Hr.
    destruct (compile_stmts s params ss) as [ps|]; [exists ps; reflexivity|discriminate Hr].
Qed.
