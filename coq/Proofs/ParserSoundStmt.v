(** * C08/C10: soundness of the operator, statement and program parsers (continues ParserSound.v). *)
From PQL Require Import Spec.FlattenStmt Proofs.ParserFacts Proofs.ExprInd Proofs.ParserSound.
From Coq Require Import Lia ZArith.
Local Open Scope list_scope.
Local Open Scope nat_scope.

Lemma is_word_kw w t : is_word w t = true -> kw_tok [w] (tok_span t) t.
Proof.
  unfold is_word. intros H. apply Bool.andb_true_iff in H as [Hk Hv].
  apply is_kind_eq in Hk. apply str_eqb_eq in Hv. repeat split; [exact Hk|left; auto].
Qed.

Lemma is_kind_tok k t : is_kind k t = true -> is_tok k (tok_span t) t.
Proof. intros H. split; [apply is_kind_eq; exact H|reflexivity]. Qed.

Lemma p_expr_sound_opt (x : option expr) : (exists x0, x = Some x0) \/ x = None.
Proof. destruct x; eauto. Qed.

Section Stmts.
Variable srclen : nat.

(** ** sort terms *)
Lemma nulls_sound (x : option expr) asc aspan nf0 (r : list token) t rest :
  match r with
  | t :: r' =>
    if is_word w_nulls t then
      match r' with
      | t2 :: r'' =>
        if is_word w_first t2 then (option_map (fun x => mkSortTerm x asc aspan true (Some (tstart t, tend t2))) x, r'', [])
        else if is_word w_last t2 then (option_map (fun x => mkSortTerm x asc aspan false (Some (tstart t, tend t2))) x, r'', [])
        else (None, r', err_at (tstart t2))
      | [] => (None, [], err_at srclen)
      end
    else (option_map (fun x => mkSortTerm x asc aspan nf0 None) x, r, [])
  | [] => (option_map (fun x => mkSortTerm x asc aspan nf0 None) x, [], [])
  end = (Some t, rest, @nil perr) ->
  exists x0 tn nf nsp, x = Some x0 /\ r = tn ++ rest /\ toks_nulls nf0 nf nsp tn /\ t = mkSortTerm x0 asc aspan nf nsp.
Proof.
  destruct r as [|t1 r'].
  { intros [= Hx <-]. apply option_map_some in Hx as (x0 & -> & ->). exists x0, [], nf0, None. repeat split. constructor. }
  destruct (is_word w_nulls t1) eqn:En.
  2:{ intros [= Hx <-]. apply option_map_some in Hx as (x0 & -> & ->). exists x0, [], nf0, None. repeat split. constructor. }
  destruct r' as [|t2 r'']; [discriminate|].
  destruct (is_word w_first t2) eqn:Ef.
  { intros [= Hx <-]. apply option_map_some in Hx as (x0 & -> & ->). exists x0, [t1; t2], true, (Some (tstart t1, tend t2)).
    repeat split. apply tn_first; apply is_word_kw; assumption. }
  destruct (is_word w_last t2) eqn:El; [|discriminate].
  intros [= Hx <-]. apply option_map_some in Hx as (x0 & -> & ->). exists x0, [t1; t2], false, (Some (tstart t1, tend t2)).
  repeat split. apply tn_last; apply is_word_kw; assumption.
Qed.

Lemma p_sort_term_sound f ts t rest : p_sort_term srclen f ts = (Some t, rest, []) ->
  exists used, ts = used ++ rest /\ toks_sort_term t used.
Proof.
  unfold p_sort_term. destruct (p_expr srclen f ts) as [[x r1] e1] eqn:Ee.
  destruct (negb (no_err e1)) eqn:Ene; [discriminate|].
  apply Bool.negb_false_iff in Ene. apply no_err_true in Ene. subst e1. cbv zeta beta.
  assert (Hfin : forall asc asp dflt ta r, r1 = ta ++ r -> toks_dir asc asp dflt ta ->
     (exists x0 tn nf nsp, x = Some x0 /\ r = tn ++ rest /\ toks_nulls dflt nf nsp tn /\ t = mkSortTerm x0 asc asp nf nsp) ->
     exists used, ts = used ++ rest /\ toks_sort_term t used).
  { intros asc asp dflt ta r Hr Hd (x0 & tn & nf & nsp & -> & -> & Hn & ->).
    destruct (p_expr_sound _ _ _ _ _ Ee) as (u1 & -> & Hu1). subst r1.
    exists (u1 ++ ta ++ tn). split; [rewrite <- !app_assoc; reflexivity|]. econstructor; eassumption. }
  destruct r1 as [|t1 r].
  { intros [= Hx <-]. apply option_map_some in Hx as (x0 & -> & ->).
    apply (Hfin false None false [] []); [reflexivity|constructor|]. exists x0, [], false, None. repeat split. constructor. }
  destruct (is_word w_asc t1) eqn:Ea.
  { intros H. apply nulls_sound in H. apply (Hfin true (tok_span t1) true [t1] r); [reflexivity|constructor; apply is_word_kw; exact Ea|exact H]. }
  destruct (is_word w_desc t1) eqn:Ed.
  { intros H. apply nulls_sound in H. apply (Hfin false (tok_span t1) false [t1] r); [reflexivity|constructor; apply is_word_kw; exact Ed|exact H]. }
  destruct (is_word w_nulls t1) eqn:En.
  { intros H. pose proof (nulls_sound x false None false (t1 :: r) t rest) as Hs. cbv beta iota in Hs. rewrite En in Hs.
    apply Hs in H. apply (Hfin false None false [] (t1 :: r)); [reflexivity|constructor|exact H]. }
  intros [= Hx <-]. apply option_map_some in Hx as (x0 & -> & ->).
  apply (Hfin false None false [] (t1 :: r)); [reflexivity|constructor|]. exists x0, [], false, None. repeat split. constructor.
Qed.

Lemma p_sort_term_nf f ts t rest e : p_sort_term srclen f ts = (t, rest, e) -> is_nf e = true -> rest = ts.
Proof.
  unfold p_sort_term. destruct (p_expr srclen f ts) as [[x r1] e1] eqn:Ee.
  destruct (negb (no_err e1)) eqn:Ene.
  { intros [= <- <- <-] Hnf. eapply p_expr_nf; eassumption. }
  cbv zeta beta. intros H Hnf. exfalso. revert H Hnf.
  assert (Hn : forall asc aspan nf0 (r : list token),
    match r with
    | t :: r' =>
      if is_word w_nulls t then
        match r' with
        | t2 :: r'' =>
          if is_word w_first t2 then (option_map (fun x => mkSortTerm x asc aspan true (Some (tstart t, tend t2))) x, r'', [])
          else if is_word w_last t2 then (option_map (fun x => mkSortTerm x asc aspan false (Some (tstart t, tend t2))) x, r'', [])
          else (None, r', err_at (tstart t2))
        | [] => (None, [], err_at srclen)
        end
      else (option_map (fun x => mkSortTerm x asc aspan nf0 None) x, r, [])
    | [] => (option_map (fun x => mkSortTerm x asc aspan nf0 None) x, [], [])
    end = (t, rest, e) -> is_nf e = true -> False).
  { intros asc aspan nf0 r. destruct r as [|t1 r']; [intros [= <- <- <-]; discriminate|].
    destruct (is_word w_nulls t1); [|intros [= <- <- <-]; discriminate].
    destruct r' as [|t2 r'']; [intros [= <- <- <-]; discriminate|].
    destruct (is_word w_first t2); [intros [= <- <- <-]; discriminate|].
    destruct (is_word w_last t2); intros [= <- <- <-]; discriminate. }
  destruct r1 as [|t1 r]; [intros [= <- <- <-]; discriminate|].
  destruct (is_word w_asc t1); [apply Hn|].
  destruct (is_word w_desc t1); [apply Hn|].
  destruct (is_word w_nulls t1) eqn:En.
  { intros H. pose proof (Hn false None false (t1 :: r)) as Hs. cbv beta iota in Hs. rewrite En in Hs. exact (Hs H). }
  intros [= <- <- <-]; discriminate.
Qed.

(** ** row counts *)
Lemma p_row_count_sound f ts x rest : p_row_count srclen f ts = (Some x, rest, []) ->
  exists used, ts = used ++ rest /\ toks_expr x used.
Proof.
  unfold p_row_count. destruct (p_expr srclen f ts) as [[x0 r1] e1] eqn:Ee.
  destruct (negb (no_err e1)) eqn:Ene.
  { intros [= -> <- ->]. discriminate. }
  apply Bool.negb_false_iff in Ene. apply no_err_true in Ene. subst e1.
  intros H. assert (x0 = Some x /\ r1 = rest) as [-> ->].
  { destruct x0 as [[]|]; try (injection H as <- <-; auto; fail); try discriminate.
    destruct (lit_is_integer k v); [injection H as <- <-; auto|discriminate]. }
  eapply p_expr_sound; eassumption.
Qed.

(** ** extend / summarize columns *)
Lemma p_ext_col_sound f ts c rest : p_ext_col srclen f ts = (Some c, rest, []) ->
  exists used, ts = used ++ rest /\ toks_ext_col c used.
Proof.
  unfold p_ext_col.
  destruct (p_ident srclen ts) as [[[i|] ri] ei] eqn:Ei.
  - apply p_ident_sound in Ei as (ti & -> & Hi & ->).
    destruct ri as [|a r].
    + destruct (p_expr srclen f [ti]) as [[x r1] e] eqn:Ee. intros [= Hx <- ->].
      cbn [when_ok no_err] in Hx. apply option_map_some in Hx as (x0 & -> & ->).
      destruct (p_expr_sound _ _ _ _ _ Ee) as (u & Hu & Hx). exists u. split; [exact Hu|constructor; exact Hx].
    + destruct (is_kind KAssign a) eqn:Ea.
      * destruct (p_expr srclen f r) as [[x r1] e] eqn:Ee. intros [= Hx <- He]. apply opaque_nil in He. subst e.
        cbn [when_ok no_err] in Hx. apply option_map_some in Hx as (x0 & -> & ->).
        destruct (p_expr_sound _ _ _ _ _ Ee) as (u & -> & Hx). exists (ti :: a :: u). split; [reflexivity|].
        constructor; [exact Hi|apply is_kind_tok; exact Ea|exact Hx].
      * destruct (p_expr srclen f (ti :: a :: r)) as [[x r1] e] eqn:Ee. intros [= Hx <- ->].
        cbn [when_ok no_err] in Hx. apply option_map_some in Hx as (x0 & -> & ->).
        destruct (p_expr_sound _ _ _ _ _ Ee) as (u & Hu & Hx). exists u. split; [exact Hu|constructor; exact Hx].
  - destruct (p_expr srclen f ts) as [[x r1] e] eqn:Ee. intros [= Hx <- ->].
    cbn [when_ok no_err] in Hx. apply option_map_some in Hx as (x0 & -> & ->).
    destruct (p_expr_sound _ _ _ _ _ Ee) as (u & Hu & Hx). exists u. split; [exact Hu|constructor; exact Hx].
Qed.

Lemma p_ext_col_nf f ts c rest e : p_ext_col srclen f ts = (c, rest, e) -> is_nf e = true -> rest = ts.
Proof.
  unfold p_ext_col.
  assert (Hplain : forall c rest e, (let '(x, r1, e) := p_expr srclen f ts in (when_ok e (option_map (mkExtCol None None) x), r1, e)) = (c, rest, e) ->
                   is_nf e = true -> rest = ts).
  { intros c0 rest0 e0. destruct (p_expr srclen f ts) as [[x r1] e1] eqn:Ee. intros [= <- <- <-] Hnf. eapply p_expr_nf; eassumption. }
  destruct (p_ident srclen ts) as [[[i|] ri] ei] eqn:Ei; [|apply Hplain].
  destruct ri as [|a r]; [apply Hplain|].
  destruct (is_kind KAssign a); [|apply Hplain].
  destruct (p_expr srclen f r) as [[x r1] e1]. intros [= <- <- <-]. rewrite is_nf_opaque. discriminate.
Qed.

(** ** comma-separated lists *)
Ltac nonf := intros [= <- <- <-]; rewrite ?is_nf_app, ?is_nf_opaque, ?is_nf_end_split; reflexivity.

Lemma p_sort_terms_sound f : forall n ts l rest, p_sort_terms srclen n f ts = (Some l, rest, []) ->
  exists used, ts = used ++ rest /\ toks_sep toks_sort_term l used.
Proof.
  induction n as [|n IH]; intros ts l rest; cbn [p_sort_terms]; [discriminate|].
  destruct (p_sort_term srclen f ts) as [[t r1] e1] eqn:Et.
  destruct (negb (no_err e1)) eqn:Ene; [discriminate|].
  apply Bool.negb_false_iff in Ene. apply no_err_true in Ene. subst e1.
  assert (Hone : forall r, (option_map (fun t => [t]) t, r, @nil perr) = (Some l, rest, []) -> r = r1 ->
                 exists used, ts = used ++ rest /\ toks_sep toks_sort_term l used).
  { intros r [= Hx <-] ->. apply option_map_some in Hx as (t0 & -> & ->).
    destruct (p_sort_term_sound _ _ _ _ Et) as (u & Hu & Ht). exists u. split; [exact Hu|constructor; exact Ht]. }
  destruct r1 as [|c r2]; [intros H; apply (Hone _ H); reflexivity|].
  destruct (is_kind KComma c) eqn:Ec; [|intros H; apply (Hone _ H); reflexivity].
  destruct (p_sort_terms srclen n f r2) as [[tl r3] e3] eqn:Er.
  intros [= Hx <- ->]. cbn [when_ok no_err] in Hx. apply opt_map2_some in Hx as (t0 & tl0 & -> & -> & ->).
  destruct (p_sort_term_sound _ _ _ _ Et) as (u & -> & Ht).
  destruct (IH _ _ _ Er) as (u2 & -> & Hl).
  exists (u ++ c :: u2). split; [rewrite <- app_assoc; reflexivity|].
  constructor; [exact Ht|apply is_kind_eq; exact Ec|exact Hl].
Qed.

Lemma p_sort_terms_nonf f : forall n ts l rest e, p_sort_terms srclen n f ts = (l, rest, e) -> is_nf e = false.
Proof.
  induction n as [|n IH]; intros ts l rest e; cbn [p_sort_terms]; [nonf|].
  destruct (p_sort_term srclen f ts) as [[t r1] e1].
  destruct (negb (no_err e1)); [nonf|].
  destruct r1 as [|c r2]; [nonf|]. destruct (is_kind KComma c); [|nonf].
  destruct (p_sort_terms srclen n f r2) as [[tl r3] e3] eqn:Er. intros [= <- <- <-]. exact (IH _ _ _ _ Er).
Qed.

Lemma p_project_cols_sound f : forall n ts l rest, p_project_cols srclen n f ts = (Some l, rest, []) ->
  exists used, ts = used ++ rest /\ toks_sep toks_proj_col l used.
Proof.
  induction n as [|n IH]; intros ts l rest; cbn [p_project_cols]; [discriminate|].
  destruct (p_ident srclen ts) as [[[name|] r] e] eqn:Ei; [|discriminate].
  apply p_ident_sound in Ei as (ti & -> & Hi & ->). cbv zeta beta.
  assert (Hmore : forall r' col used0, ti :: r = used0 ++ r' -> (forall c0, col = Some c0 -> exists tcol c1, used0 = tcol ++ [c1] /\ tkind c1 = KComma /\ toks_proj_col c0 tcol) ->
     (let '(tl, r3, e3) := p_project_cols srclen n f r' in (when_ok e3 (opt_map2 cons col tl), r3, e3)) = (Some l, rest, []) ->
     exists used, ti :: r = used ++ rest /\ toks_sep toks_proj_col l used).
  { intros r' col used0 Hu Hcol. destruct (p_project_cols srclen n f r') as [[tl r3] e3] eqn:Er.
    intros [= Hx <- ->]. cbn [when_ok no_err] in Hx. apply opt_map2_some in Hx as (c0 & tl0 & -> & -> & ->).
    destruct (Hcol c0 eq_refl) as (tcol & c1 & -> & Hc1 & Hc0).
    destruct (IH _ _ _ Er) as (u2 & -> & Hl).
    exists (tcol ++ c1 :: u2). split; [rewrite Hu, <- !app_assoc; reflexivity|]. constructor; assumption. }
  destruct r as [|sep r1].
  { intros [= <- <-]. exists [ti]. split; [reflexivity|]. constructor. constructor. exact Hi. }
  destruct (is_kind KComma sep) eqn:Ec.
  { apply (Hmore r1 _ [ti; sep]); [reflexivity|].
    intros c0 [= <-]. exists [ti], sep. repeat split; [apply is_kind_eq; exact Ec|constructor; exact Hi]. }
  destruct (is_kind KAssign sep) eqn:Ea.
  2:{ intros [= <- <-]. exists [ti]. split; [reflexivity|]. constructor. constructor. exact Hi. }
  destruct (p_expr srclen f r1) as [[x r2] e2] eqn:Ee.
  destruct (negb (no_err e2)) eqn:Ene; [discriminate|].
  apply Bool.negb_false_iff in Ene. apply no_err_true in Ene. subst e2.
  destruct (p_expr_sound_opt x) as [[x0 ->]| ->].
  2:{ destruct r2 as [|sep2 r3]; [discriminate|]. destruct (is_kind KComma sep2); [|discriminate].
      destruct (p_project_cols srclen n f r3) as [[tl r4] e3]. destruct e3; cbn; discriminate. }
  destruct (p_expr_sound _ _ _ _ _ Ee) as (u & -> & Hx).
  destruct r2 as [|sep2 r3].
  { intros [= <- <-]. exists (ti :: sep :: u). split; [rewrite !app_nil_r; reflexivity|]. constructor.
    constructor; [exact Hi|apply is_kind_tok; exact Ea|exact Hx]. }
  destruct (is_kind KComma sep2) eqn:Ec2; [|discriminate].
  apply (Hmore r3 _ (ti :: sep :: u ++ [sep2])); [cbn [app]; rewrite <- app_assoc; reflexivity|].
  intros c0 [= <-]. exists (ti :: sep :: u), sep2. repeat split; [apply is_kind_eq; exact Ec2|].
  constructor; [exact Hi|apply is_kind_tok; exact Ea|exact Hx].
Qed.

Lemma p_project_cols_nonf f : forall n ts l rest e, p_project_cols srclen n f ts = (l, rest, e) -> is_nf e = false.
Proof.
  induction n as [|n IH]; intros ts l rest e; cbn [p_project_cols]; [nonf|].
  destruct (p_ident srclen ts) as [[[name|] r] e0]; [|nonf]. cbv zeta beta.
  assert (Hmore : forall r' col, (let '(tl, r3, e3) := p_project_cols srclen n f r' in (when_ok e3 (opt_map2 cons col tl), r3, e3)) = (l, rest, e) -> is_nf e = false).
  { intros r' col. destruct (p_project_cols srclen n f r') as [[tl r3] e3] eqn:Er. intros [= <- <- <-]. exact (IH _ _ _ _ Er). }
  destruct r as [|sep r1]; [nonf|].
  destruct (is_kind KComma sep); [apply Hmore|].
  destruct (is_kind KAssign sep); [|nonf].
  destruct (p_expr srclen f r1) as [[x r2] e2].
  destruct (negb (no_err e2)); [nonf|].
  destruct r2 as [|sep2 r3]; [nonf|]. destruct (is_kind KComma sep2); [apply Hmore|nonf].
Qed.

(** extend columns and grouping columns are the same loop *)
Lemma p_extend_cols_sound f : forall n ts l rest, p_extend_cols srclen n f ts = (Some l, rest, []) ->
  exists used, ts = used ++ rest /\ toks_sep toks_ext_col l used.
Proof.
  induction n as [|n IH]; intros ts l rest; cbn [p_extend_cols]; [discriminate|].
  destruct (p_ext_col srclen f ts) as [[c r1] e1] eqn:Ec0.
  destruct (negb (no_err e1)) eqn:Ene; [discriminate|].
  apply Bool.negb_false_iff in Ene. apply no_err_true in Ene. subst e1.
  assert (Hone : forall r, (option_map (fun c => [c]) c, r, @nil perr) = (Some l, rest, []) -> r = r1 ->
                 exists used, ts = used ++ rest /\ toks_sep toks_ext_col l used).
  { intros r [= Hx <-] ->. apply option_map_some in Hx as (c0 & -> & ->).
    destruct (p_ext_col_sound _ _ _ _ Ec0) as (u & Hu & Ht). exists u. split; [exact Hu|constructor; exact Ht]. }
  destruct r1 as [|sep r2]; [intros H; apply (Hone _ H); reflexivity|].
  destruct (is_kind KComma sep) eqn:Ec; [|intros H; apply (Hone _ H); reflexivity].
  destruct (p_extend_cols srclen n f r2) as [[tl r3] e3] eqn:Er.
  intros [= Hx <- ->]. cbn [when_ok no_err] in Hx. apply opt_map2_some in Hx as (c0 & tl0 & -> & -> & ->).
  destruct (p_ext_col_sound _ _ _ _ Ec0) as (u & -> & Ht).
  destruct (IH _ _ _ Er) as (u2 & -> & Hl).
  exists (u ++ sep :: u2). split; [rewrite <- app_assoc; reflexivity|].
  constructor; [exact Ht|apply is_kind_eq; exact Ec|exact Hl].
Qed.

Lemma p_extend_cols_nonf f : forall n ts l rest e, p_extend_cols srclen n f ts = (l, rest, e) -> is_nf e = false.
Proof.
  induction n as [|n IH]; intros ts l rest e; cbn [p_extend_cols]; [nonf|].
  destruct (p_ext_col srclen f ts) as [[c r1] e1].
  destruct (negb (no_err e1)); [nonf|].
  destruct r1 as [|sep r2]; [nonf|]. destruct (is_kind KComma sep); [|nonf].
  destruct (p_extend_cols srclen n f r2) as [[tl r3] e3] eqn:Er. intros [= <- <- <-]. exact (IH _ _ _ _ Er).
Qed.

Lemma p_group_cols_sound f : forall n ts l rest, p_group_cols srclen n f ts = (Some l, rest, []) ->
  exists used, ts = used ++ rest /\ toks_sep toks_ext_col l used.
Proof.
  induction n as [|n IH]; intros ts l rest; cbn [p_group_cols]; [discriminate|].
  destruct (p_ext_col srclen f ts) as [[c r1] e1] eqn:Ec0.
  destruct (negb (no_err e1)) eqn:Ene; [discriminate|].
  apply Bool.negb_false_iff in Ene. apply no_err_true in Ene. subst e1.
  assert (Hone : forall r, (option_map (fun c => [c]) c, r, @nil perr) = (Some l, rest, []) -> r = r1 ->
                 exists used, ts = used ++ rest /\ toks_sep toks_ext_col l used).
  { intros r [= Hx <-] ->. apply option_map_some in Hx as (c0 & -> & ->).
    destruct (p_ext_col_sound _ _ _ _ Ec0) as (u & Hu & Ht). exists u. split; [exact Hu|constructor; exact Ht]. }
  destruct r1 as [|sep r2]; [intros H; apply (Hone _ H); reflexivity|].
  destruct (is_kind KComma sep) eqn:Ec; [|intros H; apply (Hone _ H); reflexivity].
  destruct (p_group_cols srclen n f r2) as [[tl r3] e3] eqn:Er.
  intros [= Hx <- ->]. cbn [when_ok no_err] in Hx. apply opt_map2_some in Hx as (c0 & tl0 & -> & -> & ->).
  destruct (p_ext_col_sound _ _ _ _ Ec0) as (u & -> & Ht).
  destruct (IH _ _ _ Er) as (u2 & -> & Hl).
  exists (u ++ sep :: u2). split; [rewrite <- app_assoc; reflexivity|].
  constructor; [exact Ht|apply is_kind_eq; exact Ec|exact Hl].
Qed.

Lemma p_group_cols_nonf f : forall n ts l rest e, p_group_cols srclen n f ts = (l, rest, e) -> is_nf e = false.
Proof.
  induction n as [|n IH]; intros ts l rest e; cbn [p_group_cols]; [nonf|].
  destruct (p_ext_col srclen f ts) as [[c r1] e1].
  destruct (negb (no_err e1)); [nonf|].
  destruct r1 as [|sep r2]; [nonf|]. destruct (is_kind KComma sep); [|nonf].
  destruct (p_group_cols srclen n f r2) as [[tl r3] e3] eqn:Er. intros [= <- <- <-]. exact (IH _ _ _ _ Er).
Qed.

(** the first loop of summarize: either no column at all (nothing consumed), or a list,
    possibly followed by one comma (then [tc] is set and the loop did not finish) *)
Lemma p_summarize_cols_sound f : forall n ac ts l rest fin tc, p_summarize_cols srclen n f ac ts = (Some l, rest, [], fin, tc) ->
  (l = [] /\ rest = ts /\ fin = false /\ tc = ac) \/
  (exists used, toks_sep toks_ext_col l used /\
     ((ts = used ++ rest /\ tc = false) \/ (exists c, ts = used ++ c :: rest /\ tkind c = KComma /\ tc = true /\ fin = false))).
Proof.
  induction n as [|n IH]; intros ac ts l rest fin tc; cbn [p_summarize_cols]; [discriminate|].
  destruct (p_ext_col srclen f ts) as [[c r1] e1] eqn:Ec0.
  destruct (is_nf e1) eqn:Enf.
  { intros [= <- <- <- <-]. left. auto. }
  destruct (negb (no_err e1)) eqn:Ene; [discriminate|].
  apply Bool.negb_false_iff in Ene. apply no_err_true in Ene. subst e1.
  assert (Hone : forall r b, (option_map (fun c => [c]) c, r, @nil perr, b, false) = (Some l, rest, [], fin, tc) -> r = r1 ->
     exists used, toks_sep toks_ext_col l used /\
     ((ts = used ++ rest /\ tc = false) \/ (exists c, ts = used ++ c :: rest /\ tkind c = KComma /\ tc = true /\ fin = false))).
  { intros r b [= Hx <- <- <-] ->. apply option_map_some in Hx as (c0 & -> & ->).
    destruct (p_ext_col_sound _ _ _ _ Ec0) as (u & Hu & Ht). exists u. split; [constructor; exact Ht|left; auto]. }
  destruct r1 as [|sep r2]; [intros H; right; apply (Hone _ _ H); reflexivity|].
  destruct (is_kind KComma sep) eqn:Ec; [|intros H; right; apply (Hone _ _ H); reflexivity].
  destruct (p_summarize_cols srclen n f true r2) as [[[[tl r3] e3] fin'] tc'] eqn:Er.
  intros [= Hx <- -> <- <-]. cbn [when_ok no_err] in Hx. apply opt_map2_some in Hx as (c0 & tl0 & -> & -> & ->).
  destruct (p_ext_col_sound _ _ _ _ Ec0) as (u & -> & Ht). right.
  destruct (IH _ _ _ _ _ _ Er) as [(-> & -> & -> & ->)|(u2 & Hl & Hcase)].
  - exists u. split; [constructor; exact Ht|]. right. exists sep. repeat split. apply is_kind_eq; exact Ec.
  - exists (u ++ sep :: u2). split; [constructor; [exact Ht|apply is_kind_eq; exact Ec|exact Hl]|].
    destruct Hcase as [(-> & ->)|(c1 & -> & Hc1 & -> & ->)].
    + left. split; [rewrite <- app_assoc; reflexivity|reflexivity].
    + right. exists c1. repeat split; [rewrite <- app_assoc; reflexivity|exact Hc1].
Qed.

Lemma p_summarize_cols_fin f : forall n ac ts l rest e fin tc, p_summarize_cols srclen n f ac ts = (l, rest, e, fin, tc) -> fin = true -> tc = false.
Proof.
  induction n as [|n IH]; intros ac ts l rest e fin tc; cbn [p_summarize_cols]; [intros [= <- <- <- <- <-]; reflexivity|].
  destruct (p_ext_col srclen f ts) as [[c r1] e1].
  destruct (is_nf e1); [intros [= <- <- <- <- <-]; discriminate|].
  destruct (negb (no_err e1)); [intros [= <- <- <- <- <-]; reflexivity|].
  destruct r1 as [|sep r2]; [intros [= <- <- <- <- <-]; reflexivity|].
  destruct (is_kind KComma sep); [|intros [= <- <- <- <- <-]; reflexivity].
  destruct (p_summarize_cols srclen n f true r2) as [[[[tl r3] e3] fin'] tc'] eqn:Er. intros [= <- <- <- <- <-]. exact (IH _ _ _ _ _ _ _ Er).
Qed.

Lemma p_summarize_cols_nonf f : forall n ac ts l rest e fin tc, p_summarize_cols srclen n f ac ts = (l, rest, e, fin, tc) -> is_nf e = false.
Proof.
  induction n as [|n IH]; intros ac ts l rest e fin tc; cbn [p_summarize_cols]; [intros [= <- <- <- <- <-]; reflexivity|].
  destruct (p_ext_col srclen f ts) as [[c r1] e1].
  destruct (is_nf e1); [intros [= <- <- <- <- <-]; reflexivity|].
  destruct (negb (no_err e1)); [intros [= <- <- <- <- <-]; apply is_nf_opaque|].
  destruct r1 as [|sep r2]; [intros [= <- <- <- <- <-]; reflexivity|].
  destruct (is_kind KComma sep); [|intros [= <- <- <- <- <-]; reflexivity].
  destruct (p_summarize_cols srclen n f true r2) as [[[[tl r3] e3] fin'] tc'] eqn:Er. intros [= <- <- <- <- <-]. exact (IH _ _ _ _ _ _ _ Er).
Qed.

(** ** render properties *)
Lemma p_render_prop_sound f ts p rest : p_render_prop srclen f ts = (Some p, rest, []) ->
  exists used, ts = used ++ rest /\ toks_render_prop p used.
Proof.
  unfold p_render_prop. destruct (p_ident srclen ts) as [[[name|] r] e0] eqn:Ei; [|discriminate].
  apply p_ident_sound in Ei as (ti & -> & Hi & ->).
  destruct r as [|a r1]; [discriminate|]. destruct (is_kind KAssign a) eqn:Ea; [|discriminate].
  destruct (p_expr srclen f r1) as [[v r2] e2] eqn:Ee.
  destruct (negb (no_err e2)) eqn:Ene; [discriminate|].
  apply Bool.negb_false_iff in Ene. apply no_err_true in Ene. subst e2.
  intros [= Hx <-]. apply option_map_some in Hx as (x0 & -> & ->).
  destruct (p_expr_sound _ _ _ _ _ Ee) as (u & -> & Hx).
  exists (ti :: a :: u). split; [reflexivity|]. constructor; [exact Hi|apply is_kind_tok; exact Ea|exact Hx].
Qed.

Lemma p_render_props_sound f : forall n ts ps rsp rest, p_render_props srclen n f ts = (Some (ps, rsp), rest, []) ->
  exists used tr, ts = used ++ tr :: rest /\ toks_sep toks_render_prop ps used /\ is_tok KRParen rsp tr.
Proof.
  induction n as [|n IH]; intros ts ps rsp rest; cbn [p_render_props]; [discriminate|].
  destruct (p_render_prop srclen f ts) as [[p r1] e1] eqn:Ep.
  destruct (negb (no_err e1)) eqn:Ene; [discriminate|].
  apply Bool.negb_false_iff in Ene. apply no_err_true in Ene. subst e1.
  destruct r1 as [|t r2]; [discriminate|].
  destruct (is_kind KRParen t) eqn:Erp.
  { intros [= Hx <-]. apply option_map_some in Hx as (p0 & -> & Heq). cbv beta in Heq. injection Heq as -> ->.
    destruct (p_render_prop_sound _ _ _ _ Ep) as (u & -> & Hp).
    exists u, t. repeat split; [constructor; exact Hp|apply is_kind_eq; exact Erp]. }
  destruct (is_kind KComma t) eqn:Ec; [|discriminate].
  destruct (p_render_props srclen n f r2) as [[tl r3] e3] eqn:Er.
  intros [= Hx <- ->]. cbn [when_ok no_err] in Hx. apply opt_map2_some in Hx as (p0 & [tl0 rsp0] & -> & -> & Heq). cbv beta in Heq. cbn [fst snd] in Heq. injection Heq as -> ->.
  destruct (p_render_prop_sound _ _ _ _ Ep) as (u & -> & Hp).
  destruct (IH _ _ _ _ Er) as (u2 & tr & -> & Hl & Hr).
  exists (u ++ t :: u2), tr. repeat split; [rewrite <- !app_assoc; reflexivity| |apply Hr|apply Hr].
  constructor; [exact Hp|apply is_kind_eq; exact Ec|exact Hl].
Qed.

Lemma p_render_props_nonf f : forall n ts l rest e, p_render_props srclen n f ts = (l, rest, e) -> is_nf e = false.
Proof.
  induction n as [|n IH]; intros ts l rest e; cbn [p_render_props]; [nonf|].
  destruct (p_render_prop srclen f ts) as [[p r1] e1].
  destruct (negb (no_err e1)); [nonf|].
  destruct r1 as [|t r2]; [nonf|]. destruct (is_kind KRParen t); [nonf|]. destruct (is_kind KComma t); [|nonf].
  destruct (p_render_props srclen n f r2) as [[tl r3] e3] eqn:Er. intros [= <- <- <-]. exact (IH _ _ _ _ Er).
Qed.

(** ** tabular expressions and operators: unfolding equations *)
Lemma p_tabular_S f (ts : list token) :
  p_tabular srclen (S f) ts =
    match p_ident srclen ts with
    | (None, r, e) => (None, r, e)
    | (Some name, r, _) =>
      let '(ops, rest, e) := p_operators srclen f r in
      (when_ok e (option_map (mkTab name) ops), rest, e)
    end.
Proof. reflexivity. Qed.

Lemma p_operators_S f (ts : list token) :
  p_operators srclen (S f) ts =
    match ts with
    | pipe :: r =>
      if is_kind KPipe pipe then
        let '(sub, rest) := split KPipe r in
        let '(op, e1) :=
          match sub with
          | [] => (None, err_at (tstart pipe))
          | name :: sr =>
            if negb (is_kind KIdentifier name) then (None, err_at (tstart name))
            else
              let '(op, subrest, eo, known) := p_operator srclen f (tok_span pipe) name sr in
              if known then (op, eo ++ end_split subrest) else (None, eo)
          end in
        let '(ops, rest', e2) := p_operators srclen f rest in
        (when_ok (e1 ++ e2) (opt_map2 cons op ops), rest', e1 ++ e2)
      else (Some [], ts, [])
    | [] => (Some [], [], [])
    end.
Proof. reflexivity. Qed.

Lemma p_operator_S f (pipe : span) (name : token) (ts : list token) :
  p_operator srclen (S f) pipe name ts =
    let kw := tok_span name in
    let w := tvalue name in
    let n := S (length ts) in
    if str_eqb w w_count then (Some (OCount pipe kw), ts, [], true)
    else if str_eqb w w_where || str_eqb w w_filter then
      let '(x, r, e) := p_expr srclen f ts in
      (when_ok e (option_map (OWhere pipe kw) x), r, opaque e, true)
    else if str_eqb w w_sort || str_eqb w w_order then
      match ts with
      | b :: r =>
        if is_kind KBy b then
          let '(terms, r1, e) := p_sort_terms srclen n f r in
          (when_ok e (option_map (OSort pipe (Some (tstart name, tend b))) terms), r1, e, true)
        else (None, r, err_at (tstart b), true)
      | [] => (None, [], err_at srclen, true)
      end
    else if str_eqb w w_take || str_eqb w w_limit then
      let '(x, r, e) := p_row_count srclen f ts in
      (when_ok e (option_map (OTake pipe kw) x), r, opaque e, true)
    else if str_eqb w w_top then
      let '(x, r, e) := p_row_count srclen f ts in
      if negb (no_err e) then (None, r, opaque e, true)
      else
        match r with
        | b :: r1 =>
          if is_kind KBy b then
            let '(col, r2, e2) := p_sort_term srclen f r1 in
            (when_ok e2 (opt_map2 (fun x c => OTop pipe kw x (tok_span b) c) x col), r2, opaque e2, true)
          else (None, r, err_at (tstart b), true)
        | [] => (None, [], err_at srclen, true)
        end
    else if str_eqb w w_project then
      let '(cols, r, e) := p_project_cols srclen n f ts in
      (when_ok e (option_map (OProject pipe kw) cols), r, e, true)
    else if str_eqb w w_extend then
      let '(cols, r, e) := p_extend_cols srclen n f ts in
      (when_ok e (option_map (OExtend pipe kw) cols), r, e, true)
    else if str_eqb w w_summarize then
      let '(cols, r, e, fin, tc) := p_summarize_cols srclen n f false ts in
      if fin then (when_ok e (option_map (fun c => OSummarize pipe kw c None []) cols), r, e, true)
      else
        let ncols := match cols with Some c => length c | None => 1%nat end in
        let need_by := Nat.eqb ncols 0 || tc in
        match r with
        | b :: r1 =>
          if is_kind KBy b then
            let '(gs, r2, e2) := p_group_cols srclen n f r1 in
            (when_ok e2 (opt_map2 (fun c g => OSummarize pipe kw c (tok_span b) g) cols gs), r2, e2, true)
          else if need_by then (None, r, err_at (tstart b), true)
          else (option_map (fun c => OSummarize pipe kw c None []) cols, r, [], true)
        | [] =>
          if need_by then (None, [], err_at srclen, true)
          else (option_map (fun c => OSummarize pipe kw c None []) cols, [], [], true)
        end
    else if str_eqb w w_join then
      match ts with
      | [] => (None, [], err_at srclen, true)
      | t0 :: r0 =>
        (* after the optional `kind = flavor` clause *)
        let after_kind (ksp kasp : span) (flavor : option ident) (r2 : list token) (e0 : errs) :=
          match r2 with
          | lp :: r3 =>
            if is_kind KLParen lp then
              let '(sub, rest) := split KRParen r3 in
              let '(rtab, subrest, er) := p_tabular srclen f sub in
              let e1 := e0 ++ opaque er ++ end_split subrest in
              match rest with
              | rp :: r4 =>
                if is_kind KRParen rp then
                  match r4 with
                  | on :: r5 =>
                    if is_word w_on on then
                      let '(conds, r6, ec) := p_expr_list srclen f r5 in
                      let e2 := e1 ++ opaque ec in
                      (when_ok e2 (opt_map2 (fun rt c =>
                         OJoin pipe kw ksp kasp flavor (tok_span lp) (tsrc rt) (tops rt) (tok_span rp) (tok_span on) c)
                         rtab conds), r6, e2, true)
                    else (None, r5, e1 ++ err_at (tstart on), true)
                  | [] => (None, [], e1 ++ err_at srclen, true)
                  end
                else (None, r4, e1 ++ err_at (tstart rp), true)
              | [] => (None, [], e1 ++ err_at srclen, true)
              end
            else (None, r3, e0 ++ err_at (tstart lp), true)
          | [] => (None, [], e0 ++ err_at srclen, true)
          end in
        if is_word w_kind t0 then
          match r0 with
          | a :: r1 =>
            if is_kind KAssign a then
              match r1 with
              | fl :: r2 =>
                if is_kind KIdentifier fl then
                  after_kind (tok_span t0) (tok_span a) (Some (mk_ident fl)) r2
                             (if is_join_type (tvalue fl) then [] else err_at (tstart fl))
                else (None, r2, err_at (tstart fl), true)
              | [] => (None, [], err_at srclen, true)
              end
            else (None, r1, err_at (tstart a), true)
          | [] => (None, [], err_at srclen, true)
          end
        else after_kind None None None ts []
      end
    else if str_eqb w w_as then
      let '(i, r, e) := p_ident srclen ts in
      (option_map (OAs pipe kw) i, r, opaque e, true)
    else if str_eqb w w_render then
      match p_ident srclen ts with
      | (None, r, _) => (None, r, err_at (tstart name), true)
      | (Some chart, r, _) =>
        match r with
        | wt :: r1 =>
          if is_word w_with wt then
            match r1 with
            | lp :: r2 =>
              if is_kind KLParen lp then
                let '(ps, r3, e) := p_render_props srclen n f r2 in
                (when_ok e (option_map (fun ps => ORender pipe kw chart (tok_span wt) (tok_span lp) (fst ps) (snd ps)) ps),
                 r3, e, true)
              else (None, r2, err_at (tstart lp), true)
            | [] => (None, [], err_at srclen, true)
            end
          else (Some (ORender pipe kw chart None None [] None), r, [], true)
        | [] => (Some (ORender pipe kw chart None None [] None), [], [], true)
        end
      end
    else (None, ts, err_at (tstart name), false).
Proof. reflexivity. Qed.

Lemma str_eqb_in1 w a : str_eqb w a = true -> In w [a].
Proof. intros H. apply str_eqb_eq in H. left. auto. Qed.
Lemma str_eqb_in2 w a b : str_eqb w a || str_eqb w b = true -> In w [a; b].
Proof. intros H. apply Bool.orb_true_iff in H as [H|H]; apply str_eqb_eq in H; cbn; auto. Qed.

Lemma ident_not_quoted t : is_kind KIdentifier t = true -> is_kind KQuotedIdentifier t = false.
Proof. intros H. apply is_kind_eq in H. unfold is_kind. rewrite H. reflexivity. Qed.

(** the part of a join after the optional `kind = flavor` *)
Definition after_kind f (pipe kw ksp kasp : span) (flavor : option ident) (r2 : list token) (e0 : errs)
  : option operator * list token * errs * bool :=
  match r2 with
  | lp :: r3 =>
    if is_kind KLParen lp then
      let '(sub, rest) := split KRParen r3 in
      let '(rtab, subrest, er) := p_tabular srclen f sub in
      let e1 := e0 ++ opaque er ++ end_split subrest in
      match rest with
      | rp :: r4 =>
        if is_kind KRParen rp then
          match r4 with
          | on :: r5 =>
            if is_word w_on on then
              let '(conds, r6, ec) := p_expr_list srclen f r5 in
              let e2 := e1 ++ opaque ec in
              (when_ok e2 (opt_map2 (fun rt c =>
                 OJoin pipe kw ksp kasp flavor (tok_span lp) (tsrc rt) (tops rt) (tok_span rp) (tok_span on) c)
                 rtab conds), r6, e2, true)
            else (None, r5, e1 ++ err_at (tstart on), true)
          | [] => (None, [], e1 ++ err_at srclen, true)
          end
        else (None, r4, e1 ++ err_at (tstart rp), true)
      | [] => (None, [], e1 ++ err_at srclen, true)
      end
    else (None, r3, e0 ++ err_at (tstart lp), true)
  | [] => (None, [], e0 ++ err_at srclen, true)
  end.

Definition T_tab (f : nat) : Prop :=
  (forall ts t rest, p_tabular srclen f ts = (Some t, rest, []) -> exists used, ts = used ++ rest /\ toks_tab t used)
  /\ (forall ts t rest e, p_tabular srclen f ts = (t, rest, e) -> is_nf e = true -> rest = ts).
Definition T_ops (f : nat) : Prop :=
  (forall ts l rest, p_operators srclen f ts = (Some l, rest, []) -> exists used, ts = used ++ rest /\ toks_ops l used)
  /\ (forall ts l rest e, p_operators srclen f ts = (l, rest, e) -> is_nf e = false).
Definition T_op (f : nat) : Prop :=
  (forall pipe name ts op rest known, p_operator srclen f pipe name ts = (Some op, rest, [], known) ->
     exists used, ts = used ++ rest /\ forall p, is_tok KPipe pipe p -> tkind name = KIdentifier -> toks_op op (p :: name :: used))
  /\ (forall pipe name ts op rest e known, p_operator srclen f pipe name ts = (op, rest, e, known) -> is_nf e = false).

Lemma after_kind_sound f pipe kw ksp kasp flavor r2 e0 op rest known : T_tab f ->
  after_kind f pipe kw ksp kasp flavor r2 e0 = (Some op, rest, [], known) ->
  e0 = [] /\ exists tl tsrc0 tro tr ton tc rsrc rops conds,
    r2 = tl :: (tsrc0 :: tro) ++ tr :: ton :: tc ++ rest /\
    op = OJoin pipe kw ksp kasp flavor (tok_span tl) rsrc rops (tok_span tr) (tok_span ton) conds /\
    is_tok KLParen (tok_span tl) tl /\ ident_tok rsrc tsrc0 /\ toks_ops rops tro /\ is_tok KRParen (tok_span tr) tr /\
    kw_tok [w_on] (tok_span ton) ton /\ toks_list conds tc /\ conds <> [].
Proof.
  intros [Hts _]. unfold after_kind.
  destruct r2 as [|lp r3]; [intros [= _ _ He]; apply app_nil_inv in He as [_ He]; discriminate|].
  destruct (is_kind KLParen lp) eqn:Elp; [|intros [= _ _ He]; apply app_nil_inv in He as [_ He]; discriminate].
  destruct (split KRParen r3) as [sub rest0] eqn:Esp.
  pose proof (split_partition KRParen r3) as Hp. rewrite Esp in Hp. cbn [fst snd] in Hp.
  destruct (p_tabular srclen f sub) as [[rtab subrest] er] eqn:Et. cbv zeta.
  destruct rest0 as [|rp r4]; [intros [= _ _ He]; apply app_nil_inv in He as [_ He]; discriminate|].
  destruct (is_kind KRParen rp) eqn:Erp; [|intros [= _ _ He]; apply app_nil_inv in He as [_ He]; discriminate].
  destruct r4 as [|on r5]; [intros [= _ _ He]; apply app_nil_inv in He as [_ He]; discriminate|].
  destruct (is_word w_on on) eqn:Eon; [|intros [= _ _ He]; apply app_nil_inv in He as [_ He]; discriminate].
  destruct (p_expr_list srclen f r5) as [[conds r6] ec] eqn:El.
  intros [= Hx <- He _]. apply app_nil_inv in He as [He1 Hec]. apply opaque_nil in Hec. subst ec.
  apply app_nil_inv in He1 as [-> He1]. apply app_nil_inv in He1 as [Her Hsr]. apply opaque_nil in Her. apply end_split_nil in Hsr. subst er subrest.
  cbn [app opaque map when_ok no_err] in Hx. apply opt_map2_some in Hx as (rt & cs & -> & -> & ->).
  split; [reflexivity|].
  destruct (Hts _ _ _ Et) as (u & Hsub & (tsrc0 & tro & -> & Hsrc & Hops)). rewrite app_nil_r in Hsub. subst sub.
  destruct (p_expr_list_sound _ _ _ _ _ El) as (tc & -> & Hl & Hne).
  exists lp, tsrc0, tro, rp, on, tc, (tsrc rt), (tops rt), cs.
  split; [subst r3; reflexivity|]. split; [reflexivity|]. split; [apply is_kind_tok; exact Elp|]. split; [exact Hsrc|].
  split; [exact Hops|]. split; [apply is_kind_tok; exact Erp|]. split; [apply is_word_kw; exact Eon|]. split; [exact Hl|exact Hne].
Qed.

Lemma after_kind_nonf f pipe kw ksp kasp flavor r2 e0 op rest e known : T_tab f -> is_nf e0 = false ->
  after_kind f pipe kw ksp kasp flavor r2 e0 = (op, rest, e, known) -> is_nf e = false.
Proof.
  intros _ He0. unfold after_kind.
  destruct r2 as [|lp r3]; [intros [= <- <- <- <-]; rewrite is_nf_app, He0; reflexivity|].
  destruct (is_kind KLParen lp); [|intros [= <- <- <- <-]; rewrite is_nf_app, He0; reflexivity].
  destruct (split KRParen r3) as [sub rest0].
  destruct (p_tabular srclen f sub) as [[rtab subrest] er]. cbv zeta.
  assert (H1 : is_nf (e0 ++ opaque er ++ end_split subrest) = false) by (rewrite !is_nf_app, He0, is_nf_opaque, is_nf_end_split; reflexivity).
  destruct rest0 as [|rp r4]; [intros [= <- <- <- <-]; rewrite is_nf_app, H1; reflexivity|].
  destruct (is_kind KRParen rp); [|intros [= <- <- <- <-]; rewrite is_nf_app, H1; reflexivity].
  destruct r4 as [|on r5]; [intros [= <- <- <- <-]; rewrite is_nf_app, H1; reflexivity|].
  destruct (is_word w_on on); [|intros [= <- <- <- <-]; rewrite is_nf_app, H1; reflexivity].
  destruct (p_expr_list srclen f r5) as [[conds r6] ec].
  intros [= <- <- <- <-]. rewrite is_nf_app, H1, is_nf_opaque. reflexivity.
Qed.

Lemma kw_mk ws n : tkind n = KIdentifier -> In (tvalue n) ws -> kw_tok ws (tok_span n) n.
Proof. intros H1 H2. split; [exact H1|split; [exact H2|reflexivity]]. Qed.

Lemma toks_sep_nonempty {A} (P : A -> list token -> Prop) l ts : toks_sep P l ts -> l <> [].
Proof. intros H. destruct H; discriminate. Qed.

Lemma p_summarize_cols_notfin f : forall n ac ts l rest e tc, p_summarize_cols srclen n f ac ts = (l, rest, e, false, tc) -> e = [].
Proof.
  induction n as [|n IH]; intros ac ts l rest e tc; cbn [p_summarize_cols]; [discriminate|].
  destruct (p_ext_col srclen f ts) as [[c r1] e1].
  destruct (is_nf e1); [intros [= <- <- <- <-]; reflexivity|].
  destruct (negb (no_err e1)); [discriminate|].
  destruct r1 as [|sep r2]; [discriminate|].
  destruct (is_kind KComma sep); [|intros [= <- <- <- <-]; reflexivity].
  destruct (p_summarize_cols srclen n f true r2) as [[[[tl r3] e3] fin'] tc'] eqn:Er. intros [= <- <- <- -> <-]. exact (IH _ _ _ _ _ _ Er).
Qed.

Lemma step_op_sound f : T_tab f -> forall pipe name ts op rest known, p_operator srclen (S f) pipe name ts = (Some op, rest, [], known) ->
  exists used, ts = used ++ rest /\ forall p, is_tok KPipe pipe p -> tkind name = KIdentifier -> toks_op op (p :: name :: used).
Proof.
  intros Htab pipe name ts op rest known. rewrite p_operator_S. cbv zeta.
  destruct (str_eqb (tvalue name) w_count) eqn:E1.
  { intros [= <- <- _]. exists []. split; [reflexivity|]. intros p Hp Hn. apply to_count; [exact Hp|apply kw_mk; [exact Hn|apply str_eqb_in1; exact E1]]. }
  destruct (str_eqb (tvalue name) w_where || str_eqb (tvalue name) w_filter) eqn:E2.
  { destruct (p_expr srclen f ts) as [[x r] e] eqn:Ee. intros [= Hx <- He _]. apply opaque_nil in He. subst e.
    cbn [when_ok no_err] in Hx. apply option_map_some in Hx as (x0 & -> & ->).
    destruct (p_expr_sound _ _ _ _ _ Ee) as (u & -> & Hu). exists u. split; [reflexivity|]. intros p Hp Hn.
    apply to_where; [exact Hp|apply kw_mk; [exact Hn|apply str_eqb_in2; exact E2]|exact Hu]. }
  destruct (str_eqb (tvalue name) w_sort || str_eqb (tvalue name) w_order) eqn:E3.
  { destruct ts as [|b r]; [discriminate|]. destruct (is_kind KBy b) eqn:Eb; [|discriminate].
    destruct (p_sort_terms srclen _ f r) as [[terms r1] e] eqn:Es. intros [= Hx <- -> _].
    cbn [when_ok no_err] in Hx. apply option_map_some in Hx as (l & -> & ->).
    destruct (p_sort_terms_sound _ _ _ _ _ Es) as (u & -> & Hu). exists (b :: u). split; [reflexivity|]. intros p Hp Hn.
    apply to_sort; [exact Hp|apply kw_mk; [exact Hn|apply str_eqb_in2; exact E3]|apply is_kind_eq; exact Eb|exact Hu]. }
  destruct (str_eqb (tvalue name) w_take || str_eqb (tvalue name) w_limit) eqn:E4.
  { destruct (p_row_count srclen f ts) as [[x r] e] eqn:Ee. intros [= Hx <- He _]. apply opaque_nil in He. subst e.
    cbn [when_ok no_err] in Hx. apply option_map_some in Hx as (x0 & -> & ->).
    destruct (p_row_count_sound _ _ _ _ Ee) as (u & -> & Hu). exists u. split; [reflexivity|]. intros p Hp Hn.
    apply to_take; [exact Hp|apply kw_mk; [exact Hn|apply str_eqb_in2; exact E4]|exact Hu]. }
  destruct (str_eqb (tvalue name) w_top) eqn:E5.
  { destruct (p_row_count srclen f ts) as [[x r] e] eqn:Ee.
    destruct (negb (no_err e)) eqn:Ene; [discriminate|].
    apply Bool.negb_false_iff in Ene. apply no_err_true in Ene. subst e.
    destruct r as [|b r1]; [discriminate|]. destruct (is_kind KBy b) eqn:Eb; [|discriminate].
    destruct (p_sort_term srclen f r1) as [[col r2] e2] eqn:Es. intros [= Hx <- He _]. apply opaque_nil in He. subst e2.
    cbn [when_ok no_err] in Hx. apply opt_map2_some in Hx as (x0 & c0 & -> & -> & ->).
    destruct (p_row_count_sound _ _ _ _ Ee) as (u & -> & Hu).
    destruct (p_sort_term_sound _ _ _ _ Es) as (u2 & -> & Hu2).
    exists (u ++ b :: u2). split; [rewrite <- app_assoc; reflexivity|]. intros p Hp Hn.
    apply to_top; [exact Hp|apply kw_mk; [exact Hn|apply str_eqb_in1; exact E5]|exact Hu|apply is_kind_tok; exact Eb|exact Hu2]. }
  destruct (str_eqb (tvalue name) w_project) eqn:E6.
  { destruct (p_project_cols srclen _ f ts) as [[cols r] e] eqn:Ec. intros [= Hx <- -> _].
    cbn [when_ok no_err] in Hx. apply option_map_some in Hx as (l & -> & ->).
    destruct (p_project_cols_sound _ _ _ _ _ Ec) as (u & -> & Hu). exists u. split; [reflexivity|]. intros p Hp Hn.
    apply to_project; [exact Hp|apply kw_mk; [exact Hn|apply str_eqb_in1; exact E6]|exact Hu]. }
  destruct (str_eqb (tvalue name) w_extend) eqn:E7.
  { destruct (p_extend_cols srclen _ f ts) as [[cols r] e] eqn:Ec. intros [= Hx <- -> _].
    cbn [when_ok no_err] in Hx. apply option_map_some in Hx as (l & -> & ->).
    destruct (p_extend_cols_sound _ _ _ _ _ Ec) as (u & -> & Hu). exists u. split; [reflexivity|]. intros p Hp Hn.
    apply to_extend; [exact Hp|apply kw_mk; [exact Hn|apply str_eqb_in1; exact E7]|exact Hu]. }
  destruct (str_eqb (tvalue name) w_summarize) eqn:E8.
  { destruct (p_summarize_cols srclen _ f false ts) as [[[[cols r] e] fin] tc] eqn:Ec.
    assert (Hfinish : forall body, ts = body ++ rest -> forall c bsp gs, toks_summ c bsp gs body -> op = OSummarize pipe (tok_span name) c bsp gs ->
       exists used, ts = used ++ rest /\ forall p, is_tok KPipe pipe p -> tkind name = KIdentifier -> toks_op op (p :: name :: used)).
    { intros body Hb c bsp gs Hs ->. exists body. split; [exact Hb|]. intros p Hp Hn.
      apply to_summarize; [exact Hp|apply kw_mk; [exact Hn|apply str_eqb_in1; exact E8]|exact Hs]. }
    destruct fin.
    { intros [= Hx <- -> _]. cbn [when_ok no_err] in Hx. apply option_map_some in Hx as (l & -> & ->).
      destruct (p_summarize_cols_sound _ _ _ _ _ _ _ _ Ec) as [(_ & _ & Hf & _)|(u & Hl & [(-> & _)|(c1 & _ & _ & _ & Hf)])]; try discriminate.
      apply (Hfinish u eq_refl l None []); [constructor; exact Hl|reflexivity]. }
    pose proof (p_summarize_cols_notfin _ _ _ _ _ _ _ _ Ec) as ->.
    assert (Hcols : forall (P : Prop), (forall l, cols = Some l -> P) -> (cols = None -> P) -> P) by (intros P H1 H2; destruct cols; eauto).
    apply Hcols; clear Hcols.
    2:{ intros ->. cbn [Nat.eqb orb]. destruct tc, r as [|b r1]; try discriminate;
        (destruct (is_kind KBy b); [|discriminate]); destruct (p_group_cols srclen _ f r1) as [[gs r2] e2]; destruct e2; discriminate. }
    intros l ->.
    destruct (p_summarize_cols_sound _ _ _ _ _ _ _ _ Ec) as [(-> & -> & _ & ->)|(u & Hl & Hcase)].
    - (* no column: `by` is required *)
      destruct ts as [|b r1]; [discriminate|]. destruct (is_kind KBy b) eqn:Eb; [|discriminate].
      destruct (p_group_cols srclen _ f r1) as [[gs r2] e2] eqn:Eg. intros [= Hx <- -> _].
      destruct gs as [g0|]; cbn in Hx; [|discriminate Hx]. injection Hx as <-.
      destruct (p_group_cols_sound _ _ _ _ _ Eg) as (ug & -> & Hg).
      apply (Hfinish (b :: ug) eq_refl [] (tok_span b) g0); [|reflexivity]. apply tsm_by_only; [apply is_kind_tok; exact Eb|exact Hg].
    - pose proof (toks_sep_nonempty _ _ _ Hl) as Hne.
      assert (Hlen : Nat.eqb (length l) 0 = false) by (destruct l; [congruence|reflexivity]).
      destruct Hcase as [(-> & ->)|(c1 & -> & Hc1 & -> & _)].
      + rewrite Hlen. cbn [orb].
        destruct r as [|b r1].
        { intros [= <- <- _]. apply (Hfinish u eq_refl l None []); [constructor; exact Hl|reflexivity]. }
        destruct (is_kind KBy b) eqn:Eb.
        2:{ intros [= <- <- _]. apply (Hfinish u eq_refl l None []); [constructor; exact Hl|reflexivity]. }
        destruct (p_group_cols srclen _ f r1) as [[gs r2] e2] eqn:Eg. intros [= Hx <- -> _].
        destruct gs as [g0|]; cbn in Hx; [|discriminate Hx]. injection Hx as <-.
        destruct (p_group_cols_sound _ _ _ _ _ Eg) as (ug & -> & Hg).
        apply (Hfinish (u ++ b :: ug) ltac:(rewrite <- app_assoc; reflexivity) l (tok_span b) g0); [|reflexivity].
        apply tsm_by; [exact Hl|apply is_kind_tok; exact Eb|exact Hg].
      + rewrite Bool.orb_true_r.
        destruct r as [|b r1]; [discriminate|]. destruct (is_kind KBy b) eqn:Eb; [|discriminate].
        destruct (p_group_cols srclen _ f r1) as [[gs r2] e2] eqn:Eg. intros [= Hx <- -> _].
        destruct gs as [g0|]; cbn in Hx; [|discriminate Hx]. injection Hx as <-.
        destruct (p_group_cols_sound _ _ _ _ _ Eg) as (ug & -> & Hg).
        apply (Hfinish (u ++ c1 :: b :: ug) ltac:(rewrite <- app_assoc; reflexivity) l (tok_span b) g0); [|reflexivity].
        apply tsm_comma_by; [exact Hl|exact Hc1|apply is_kind_tok; exact Eb|exact Hg]. }
  destruct (str_eqb (tvalue name) w_join) eqn:E9.
  { destruct ts as [|t0 r0]; [discriminate|].
    assert (Hjoin : forall ksp kasp flavor tk r2 e0, t0 :: r0 = tk ++ r2 -> (e0 = [] -> toks_join_kind ksp kasp flavor tk) ->
       after_kind f pipe (tok_span name) ksp kasp flavor r2 e0 = (Some op, rest, [], known) ->
       exists used, t0 :: r0 = used ++ rest /\ forall p, is_tok KPipe pipe p -> tkind name = KIdentifier -> toks_op op (p :: name :: used)).
    { intros ksp kasp flavor tk r2 e0 Hts Hk H. apply (after_kind_sound _ _ _ _ _ _ _ _ _ _ _ Htab) in H.
      destruct H as (He0 & tl & tsrc0 & tro & tr & ton & tc & rsrc & rops & conds & -> & -> & Hl & Hsrc & Hops & Hr & Hon & Hc & Hne).
      exists (tk ++ tl :: (tsrc0 :: tro) ++ tr :: ton :: tc). split.
      { rewrite Hts, <- app_assoc. f_equal. cbn [app]. f_equal. f_equal. rewrite <- app_assoc. reflexivity. }
      intros p Hp Hn. apply to_join; try assumption; [apply kw_mk; [exact Hn|apply str_eqb_in1; exact E9]|apply Hk; exact He0]. }
    destruct (is_word w_kind t0) eqn:Ek.
    - destruct r0 as [|a r1]; [discriminate|]. destruct (is_kind KAssign a) eqn:Ea; [|discriminate].
      destruct r1 as [|fl r2]; [discriminate|]. destruct (is_kind KIdentifier fl) eqn:Efl; [|discriminate].
      intros H. apply (Hjoin (tok_span t0) (tok_span a) (Some (mk_ident fl)) [t0; a; fl] r2 (if is_join_type (tvalue fl) then [] else err_at (tstart fl)) eq_refl); [|exact H].
      intros He0. destruct (is_join_type (tvalue fl)) eqn:Ejt; [|discriminate].
      apply tjk_some; [apply is_word_kw; exact Ek|apply is_kind_tok; exact Ea| | |exact Ejt].
      + apply mk_ident_tok. rewrite Efl. reflexivity.
      + cbn [mk_ident iquoted]. apply ident_not_quoted. exact Efl.
    - intros H. apply (Hjoin None None None [] (t0 :: r0) [] eq_refl); [|exact H]. intros _. constructor. }
  destruct (str_eqb (tvalue name) w_as) eqn:E10.
  { destruct (p_ident srclen ts) as [[i r] e] eqn:Ei. intros [= Hx <- He _]. apply option_map_some in Hx as (i0 & -> & ->).
    apply p_ident_sound in Ei as (ti & -> & Hi & _). exists [ti]. split; [reflexivity|]. intros p Hp Hn.
    apply to_as; [exact Hp|apply kw_mk; [exact Hn|apply str_eqb_in1; exact E10]|exact Hi]. }
  destruct (str_eqb (tvalue name) w_render) eqn:E11; [|discriminate].
  destruct (p_ident srclen ts) as [[[chart|] r] e] eqn:Ei; [|discriminate].
  apply p_ident_sound in Ei as (tch & -> & Hch & _).
  assert (Hplain : forall r', (Some (ORender pipe (tok_span name) chart None None [] None), r', @nil perr, true) = (Some op, rest, [], known) -> r' = r ->
     exists used, tch :: r = used ++ rest /\ forall p, is_tok KPipe pipe p -> tkind name = KIdentifier -> toks_op op (p :: name :: used)).
  { intros r' [= <- <- _] ->. exists [tch]. split; [reflexivity|]. intros p Hp Hn.
    apply to_render; [exact Hp|apply kw_mk; [exact Hn|apply str_eqb_in1; exact E11]|exact Hch|constructor]. }
  destruct r as [|wt r1]; [intros H; apply (Hplain _ H); reflexivity|].
  destruct (is_word w_with wt) eqn:Ew; [|intros H; apply (Hplain _ H); reflexivity].
  destruct r1 as [|lp r2]; [discriminate|]. destruct (is_kind KLParen lp) eqn:Elp; [|discriminate].
  destruct (p_render_props srclen _ f r2) as [[ps r3] e0] eqn:Ep. intros [= Hx <- -> _].
  cbn [when_ok no_err] in Hx. apply option_map_some in Hx as ([props rsp] & -> & ->). cbn [fst snd].
  destruct (p_render_props_sound _ _ _ _ _ _ Ep) as (u & tr & -> & Hu & Hr).
  exists (tch :: wt :: lp :: u ++ [tr]). split; [cbn [app]; rewrite <- app_assoc; reflexivity|]. intros p Hp Hn.
  apply to_render; [exact Hp|apply kw_mk; [exact Hn|apply str_eqb_in1; exact E11]|exact Hch|].
  apply trw_some; [apply is_word_kw; exact Ew|apply is_kind_tok; exact Elp|exact Hu|exact Hr].
Qed.

Ltac nonf4 := intros [= <- <- <- <-]; rewrite ?is_nf_app, ?is_nf_opaque, ?is_nf_end_split; reflexivity.

Lemma step_op_nonf f : T_tab f -> forall pipe name ts op rest e known, p_operator srclen (S f) pipe name ts = (op, rest, e, known) -> is_nf e = false.
Proof.
  intros Htab pipe name ts op rest e known. rewrite p_operator_S. cbv zeta.
  destruct (str_eqb (tvalue name) w_count); [nonf4|].
  destruct (_ || _). { destruct (p_expr srclen f ts) as [[x r] e0]. nonf4. }
  destruct (_ || _).
  { destruct ts as [|b r]; [nonf4|]. destruct (is_kind KBy b); [|nonf4].
    destruct (p_sort_terms srclen _ f r) as [[terms r1] e0] eqn:Es. intros [= <- <- <- <-]. exact (p_sort_terms_nonf _ _ _ _ _ _ Es). }
  destruct (_ || _). { destruct (p_row_count srclen f ts) as [[x r] e0]. nonf4. }
  destruct (str_eqb (tvalue name) w_top).
  { destruct (p_row_count srclen f ts) as [[x r] e0]. destruct (negb (no_err e0)); [nonf4|].
    destruct r as [|b r1]; [nonf4|]. destruct (is_kind KBy b); [|nonf4]. destruct (p_sort_term srclen f r1) as [[col r2] e2]. nonf4. }
  destruct (str_eqb (tvalue name) w_project).
  { destruct (p_project_cols srclen _ f ts) as [[cols r] e0] eqn:Ec. intros [= <- <- <- <-]. exact (p_project_cols_nonf _ _ _ _ _ _ Ec). }
  destruct (str_eqb (tvalue name) w_extend).
  { destruct (p_extend_cols srclen _ f ts) as [[cols r] e0] eqn:Ec. intros [= <- <- <- <-]. exact (p_extend_cols_nonf _ _ _ _ _ _ Ec). }
  destruct (str_eqb (tvalue name) w_summarize).
  { destruct (p_summarize_cols srclen _ f false ts) as [[[[cols r] e0] fin] tc] eqn:Ec.
    pose proof (p_summarize_cols_nonf _ _ _ _ _ _ _ _ _ Ec) as Hn.
    destruct fin; [intros [= <- <- <- <-]; exact Hn|].
    destruct r as [|b r1].
    { destruct (_ || _); nonf4. }
    destruct (is_kind KBy b).
    { destruct (p_group_cols srclen _ f r1) as [[gs r2] e2] eqn:Eg. intros [= <- <- <- <-]. exact (p_group_cols_nonf _ _ _ _ _ _ Eg). }
    destruct (_ || _); nonf4. }
  destruct (str_eqb (tvalue name) w_join).
  { destruct ts as [|t0 r0]; [nonf4|].
    destruct (is_word w_kind t0).
    - destruct r0 as [|a r1]; [nonf4|]. destruct (is_kind KAssign a); [|nonf4].
      destruct r1 as [|fl r2]; [nonf4|]. destruct (is_kind KIdentifier fl); [|nonf4].
      intros H. apply (after_kind_nonf f pipe (tok_span name) (tok_span t0) (tok_span a) (Some (mk_ident fl)) r2
                         (if is_join_type (tvalue fl) then [] else err_at (tstart fl)) op rest e known Htab); [|exact H].
      destruct (is_join_type (tvalue fl)); reflexivity.
    - intros H. apply (after_kind_nonf f pipe (tok_span name) None None None (t0 :: r0) [] op rest e known Htab); [reflexivity|exact H]. }
  destruct (str_eqb (tvalue name) w_as). { destruct (p_ident srclen ts) as [[i r] e0]. nonf4. }
  destruct (str_eqb (tvalue name) w_render); [|nonf4].
  destruct (p_ident srclen ts) as [[[chart|] r] e0]; [|nonf4].
  destruct r as [|wt r1]; [nonf4|]. destruct (is_word w_with wt); [|nonf4].
  destruct r1 as [|lp r2]; [nonf4|]. destruct (is_kind KLParen lp); [|nonf4].
  destruct (p_render_props srclen _ f r2) as [[ps r3] e1] eqn:Ep. intros [= <- <- <- <-]. exact (p_render_props_nonf _ _ _ _ _ _ Ep).
Qed.

Lemma step_op f : T_tab f -> T_op (S f).
Proof. intros H. split; [apply step_op_sound; exact H|apply step_op_nonf; exact H]. Qed.

Lemma step_ops f : T_op f -> T_ops f -> T_ops (S f).
Proof.
  intros [Hos Hon] [Hls Hln]. split.
  - intros ts l rest. rewrite p_operators_S.
    destruct ts as [|pipe r]; [intros [= <- <-]; exists []; split; [reflexivity|constructor]|].
    destruct (is_kind KPipe pipe) eqn:Epipe; [|intros [= <- <-]; exists []; split; [reflexivity|constructor]].
    destruct (split KPipe r) as [sub rest0] eqn:Esp.
    pose proof (split_partition KPipe r) as Hp. rewrite Esp in Hp. cbn [fst snd] in Hp.
    destruct (p_operators srclen f rest0) as [[ops rest'] e2] eqn:Er.
    destruct sub as [|name sr].
    { intros [= _ _ He]; apply app_nil_inv in He as [He _]; discriminate. }
    destruct (negb (is_kind KIdentifier name)) eqn:Eid.
    { intros [= _ _ He]; apply app_nil_inv in He as [He _]; discriminate. }
    apply Bool.negb_false_iff in Eid.
    destruct (p_operator srclen f (tok_span pipe) name sr) as [[[op subrest] eo] known] eqn:Eo.
    destruct known.
    2:{ intros [= Hx _ He]. apply app_nil_inv in He as [-> ->]. discriminate Hx. }
    intros [= Hx <- He]. apply app_nil_inv in He as [He1 ->]. apply app_nil_inv in He1 as [-> Hsr]. apply end_split_nil in Hsr. subst subrest.
    cbn [app when_ok no_err] in Hx. apply opt_map2_some in Hx as (o & os & -> & -> & ->).
    destruct (Hos _ _ _ _ _ _ Eo) as (u & Hsr & Ho). rewrite app_nil_r in Hsr. subst sr.
    destruct (Hls _ _ _ Er) as (u2 & -> & Hl).
    exists ((pipe :: name :: u) ++ u2). split; [subst r; cbn [app]; rewrite <- app_assoc; reflexivity|].
    constructor; [|exact Hl]. apply Ho; [apply is_kind_tok; exact Epipe|apply is_kind_eq; exact Eid].
  - intros ts l rest e. rewrite p_operators_S.
    destruct ts as [|pipe r]; [nonf|]. destruct (is_kind KPipe pipe); [|nonf].
    destruct (split KPipe r) as [sub rest0].
    destruct (p_operators srclen f rest0) as [[ops rest'] e2] eqn:Er. pose proof (Hln _ _ _ _ Er) as H2.
    destruct sub as [|name sr]; [intros [= <- <- <-]; change (is_nf (err_at (tstart pipe) ++ e2) = false); rewrite is_nf_app, H2; reflexivity|].
    destruct (negb (is_kind KIdentifier name)); [intros [= <- <- <-]; change (is_nf (err_at (tstart name) ++ e2) = false); rewrite is_nf_app, H2; reflexivity|].
    destruct (p_operator srclen f (tok_span pipe) name sr) as [[[op subrest] eo] known] eqn:Eo. pose proof (Hon _ _ _ _ _ _ _ Eo) as H1.
    destruct known; intros [= <- <- <-]; rewrite ?is_nf_app, H1, H2, ?is_nf_end_split; reflexivity.
Qed.

Lemma step_tab f : T_ops f -> T_tab (S f).
Proof.
  intros [Hls Hln]. split.
  - intros ts t rest. rewrite p_tabular_S.
    destruct (p_ident srclen ts) as [[[name|] r] e0] eqn:Ei; [|discriminate].
    apply p_ident_sound in Ei as (ti & -> & Hi & _).
    destruct (p_operators srclen f r) as [[ops rest0] e] eqn:Eo. intros [= Hx <- ->].
    cbn [when_ok no_err] in Hx. apply option_map_some in Hx as (l & -> & ->).
    destruct (Hls _ _ _ Eo) as (u & -> & Hu). exists (ti :: u). split; [reflexivity|].
    exists ti, u. split; [reflexivity|split; [exact Hi|exact Hu]].
  - intros ts t rest e. rewrite p_tabular_S.
    destruct (p_ident srclen ts) as [[[name|] r] e0] eqn:Ei.
    + destruct (p_operators srclen f r) as [[ops rest0] e1] eqn:Eo. intros [= <- <- <-] Hnf.
      rewrite (Hln _ _ _ _ Eo) in Hnf. discriminate.
    + intros [= <- <- <-] _. unfold p_ident in Ei. destruct ts as [|t0 r0]; [injection Ei as <- _; reflexivity|].
      destruct (_ || _); [discriminate|]. injection Ei as <- _. reflexivity.
Qed.

Lemma T_0 : T_tab 0 /\ T_ops 0 /\ T_op 0.
Proof.
  unfold T_tab, T_ops, T_op. cbn [p_tabular p_operators p_operator].
  repeat split; intros; try discriminate;
    match goal with H : _ = _ |- _ => injection H; intros; subst; try reflexivity end.
Qed.

Theorem T_all f : T_tab f /\ T_ops f /\ T_op f.
Proof.
  induction f as [|f (Ht & Hl & Ho)]; [apply T_0|].
  split; [apply step_tab; exact Hl|split; [apply step_ops; assumption|apply step_op; exact Ht]].
Qed.

(** ** statements *)
Lemma p_let_sound f ts s rest : p_let srclen f ts = (Some s, rest, []) -> exists used, ts = used ++ rest /\ toks_stmt s used.
Proof.
  unfold p_let. destruct ts as [|kw r]; [discriminate|]. destruct (is_word w_let kw) eqn:Ek; [|discriminate].
  destruct (p_ident srclen r) as [[[name|] r1] e0] eqn:Ei; [|discriminate].
  apply p_ident_sound in Ei as (ti & -> & Hi & _).
  destruct r1 as [|a r2]; [discriminate|]. destruct (is_kind KAssign a) eqn:Ea; [|discriminate].
  destruct (p_expr srclen f r2) as [[x r3] e] eqn:Ee. intros [= Hx <- He]. apply opaque_nil in He. subst e.
  cbn [when_ok no_err] in Hx. apply option_map_some in Hx as (x0 & -> & ->).
  destruct (p_expr_sound _ _ _ _ _ Ee) as (u & -> & Hu).
  exists (kw :: ti :: a :: u). split; [reflexivity|].
  constructor; [apply is_word_kw; exact Ek|exact Hi|apply is_kind_tok; exact Ea|exact Hu].
Qed.

Lemma p_let_nf f ts s rest e : p_let srclen f ts = (s, rest, e) -> is_nf e = true -> rest = ts.
Proof.
  unfold p_let. destruct ts as [|kw r]; [intros [= <- <- <-] _; reflexivity|].
  destruct (is_word w_let kw); [|intros [= <- <- <-] _; reflexivity].
  destruct (p_ident srclen r) as [[[name|] r1] e0]; [|intros [= <- <- <-]; rewrite is_nf_opaque; discriminate].
  destruct r1 as [|a r2]; [intros [= <- <- <-]; discriminate|]. destruct (is_kind KAssign a); [|intros [= <- <- <-]; discriminate].
  destruct (p_expr srclen f r2) as [[x r3] e1]. intros [= <- <- <-]. rewrite is_nf_opaque. discriminate.
Qed.

Lemma p_statement_sound f ts s rest : p_statement srclen f ts = (Some s, rest, []) -> exists used, ts = used ++ rest /\ toks_stmt s used.
Proof.
  unfold p_statement. destruct (p_let srclen f ts) as [[s0 r] e] eqn:El.
  destruct (negb (is_nf e)) eqn:Enf.
  { intros [= -> <- ->]. eapply p_let_sound; exact El. }
  destruct (p_tabular srclen f ts) as [[t r0] e0] eqn:Et. intros [= Hx <- ->].
  apply option_map_some in Hx as (t0 & -> & ->).
  destruct (T_all f) as ((Hts & _) & _). destruct (Hts _ _ _ Et) as (u & -> & Hu).
  exists u. split; [reflexivity|constructor; exact Hu].
Qed.

Lemma p_statement_nf f ts s rest e : p_statement srclen f ts = (s, rest, e) -> is_nf e = true -> rest = ts.
Proof.
  unfold p_statement. destruct (p_let srclen f ts) as [[s0 r] e0] eqn:El.
  destruct (negb (is_nf e0)) eqn:Enf.
  { intros [= <- <- <-] Hnf. rewrite Hnf in Enf. discriminate. }
  destruct (p_tabular srclen f ts) as [[t r0] e1] eqn:Et. intros [= <- <- <-] Hnf.
  destruct (T_all f) as ((_ & Htn) & _). eapply Htn; eassumption.
Qed.

Lemma split_semi_snd ts : match snd (split_semi ts) with [] => True | semi :: _ => tkind semi = KSemi end.
Proof.
  induction ts as [|t r IH]; cbn [split_semi]; [exact I|].
  destruct (is_kind KSemi t) eqn:E; [cbn [snd]; apply is_kind_eq; exact E|].
  destruct (split_semi r) as [a b]. exact IH.
Qed.

Lemma p_statements_sound f : forall n ts ss, p_statements srclen n f ts [] = (Some ss, []) -> toks_prog ss ts.
Proof.
  induction n as [|n IH]; intros ts ss; cbn [p_statements]; [discriminate|].
  destruct (split_semi ts) as [sub rest] eqn:Esp.
  pose proof (split_semi_app ts) as Hp. pose proof (split_semi_snd ts) as Hsemi. rewrite Esp in Hp, Hsemi. cbn [fst snd] in Hp, Hsemi.
  destruct (p_statement srclen f sub) as [[s subrest] e] eqn:Es.
  (* the errors after this statement must be empty, and tell how the statement went *)
  assert (Hstep : forall here acc', (if is_nf e then match subrest with t :: _ => (Some [], e ++ err_at (tstart t)) | [] => (Some [], []) end
                                     else (option_map (fun s => [s]) s, [] ++ opaque e ++ end_split subrest)) = (here, acc') -> acc' = [] ->
            (here = Some [] /\ sub = []) \/ (exists s0, here = Some [s0] /\ toks_stmt s0 sub) \/ here = None).
  { intros here acc'. destruct (is_nf e) eqn:Enf.
    - pose proof (p_statement_nf _ _ _ _ _ Es Enf) as ->.
      destruct sub as [|t0 sr]; [intros [= <- <-] _; left; auto|].
      intros [= <- <-] He. apply app_nil_inv in He as [_ He]. discriminate.
    - intros [= <- <-] He. cbn [app] in He. apply app_nil_inv in He as [He1 He2]. apply opaque_nil in He1. apply end_split_nil in He2. subst e subrest.
      destruct s as [s0|]; [|right; right; reflexivity]. right. left. exists s0. split; [reflexivity|].
      destruct (p_statement_sound _ _ _ _ Es) as (u & Hu & Hs). rewrite app_nil_r in Hu. subst u. exact Hs. }
  match goal with |- (let '(here, acc') := ?X in _) = _ -> _ => destruct X as [here acc'] eqn:Eh end.
  destruct rest as [|semi rest'].
  - intros [= -> ->]. destruct (Hstep _ _ Eh eq_refl) as [([= ->] & ->)|[(s0 & [= ->] & Hs)|Hn]]; [| |discriminate].
    + subst ts. constructor.
    + subst ts. rewrite app_nil_r. apply tp_last. exact Hs.
  - destruct (p_statements srclen n f rest' acc') as [tl acc''] eqn:Er. intros [= Hx ->].
    assert (acc' = []) as ->.
    { destruct acc' as [|a0 acc0]; [reflexivity|]. exfalso.
      pose proof (p_statements_acc srclen n f rest' (a0 :: acc0) ltac:(discriminate)) as Hacc. rewrite Er in Hacc. apply Hacc. reflexivity. }
    apply opt_map2_some in Hx as (h & tl0 & -> & -> & ->).
    specialize (IH _ _ Er).
    destruct (Hstep _ _ Eh eq_refl) as [([= ->] & ->)|[(s0 & [= ->] & Hs)|Hn]]; [| |discriminate].
    + subst ts. cbn [app]. apply tp_empty; [exact Hsemi|exact IH].
    + subst ts. cbn [app]. apply tp_cons; [exact Hs|exact Hsemi|exact IH].
Qed.

End Stmts.

(** ** the whole parser *)
Theorem parse_tokens_sound srclen ts ss : parse_tokens srclen ts = ParseOk ss -> toks_prog ss ts.
Proof.
  unfold parse_tokens. destruct (p_statements srclen _ _ ts []) as [l e] eqn:Ep.
  destruct (existsb efuel e); [discriminate|]. destruct (no_err e) eqn:En; [|discriminate].
  apply no_err_true in En. subst e. destruct l as [l|]; [|discriminate]. intros [= <-].
  eapply p_statements_sound. exact Ep.
Qed.

(** If [parse] succeeds, the tokens of the source are exactly the program's token sequence. *)
Theorem parse_sound s ss : parse s = ParseOk ss -> toks_prog ss (scan s).
Proof. apply parse_tokens_sound. Qed.
