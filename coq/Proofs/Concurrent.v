(** * C14: Compile calls as threads over the package-level state -- every interleaving.
    The translator lists every syntactic write to a package-level variable of pql, parser and
    cmd/pql ([write_sites], regenerated on every run).  This file gives the consequence for
    concurrent and repeated calls: a machine whose threads may perform, on the shared state,
    exactly the steps the code can take -- the guarded once-initialisation, reads, and a write
    through any listed site that is not that initialisation -- and the theorem that, the table
    being what it is, every read in every interleaving observes the initialised value, so what
    a call computes does not depend on the schedule or on the calls before it. *)
From PQL Require Import Model.Compile Gen.Shared Proofs.SharedFacts.
From Coq Require Import Lia.
Local Open Scope list_scope.
Local Open Scope nat_scope.

Section Machine.
Variable V : Type.
Variable table : V.                      (* what initKnownFunctions assigns to knownFunctions.m *)
Variable sites : list write_site.        (* the write sites of the code *)

Record shared := mkShared { cell : option V; once_done : bool }.
Definition shared0 : shared := mkShared None false.

Inductive act :=
| AOnce                                  (* knownFunctions.init.Do(initKnownFunctions) *)
| ARead                                  (* a read of knownFunctions.m *)
| AWrite (w : write_site) (v : V).       (* a write through a listed site other than the initialisation *)

Definition step (s : shared) (a : act) : shared * option (option V) :=
  match a with
  | AOnce => if once_done s then (s, None) else (mkShared (Some table) true, None)
  | ARead => (s, Some (cell s))
  | AWrite _ v => (mkShared (Some v) (once_done s), None)
  end.

(** what a call's code may do: writes only through listed sites that are not the guarded
    initialisation (that one is [AOnce]); reads of the table only after [AOnce] (pql.go calls
    init.Do at the top of the only function that reads knownFunctions.m) *)
Definition allowed (a : act) : Prop :=
  match a with AWrite w _ => In w sites /\ site_is_once_init w = false | _ => True end.

Fixpoint reads_guarded (seen_once : bool) (prog : list act) : Prop :=
  match prog with
  | [] => True
  | AOnce :: r => reads_guarded true r
  | ARead :: r => seen_once = true /\ reads_guarded seen_once r
  | AWrite _ _ :: r => reads_guarded seen_once r
  end.

(** threads: remaining program and whether the thread has passed its [AOnce] *)
Record thread := mkThread { prog : list act; passed : bool }.

Definition wf_thread (t : thread) : Prop := Forall allowed (prog t) /\ reads_guarded (passed t) (prog t).

(** one scheduling decision: thread [i] takes its next step (nothing happens if it has finished
    or does not exist); observations are (thread, value read) *)
Fixpoint nth_upd {A} (l : list A) (i : nat) (f : A -> A) : list A :=
  match l, i with
  | [], _ => []
  | x :: r, O => f x :: r
  | x :: r, S j => x :: nth_upd r j f
  end.

Definition sched_step (st : shared * list thread * list (nat * option V)) (i : nat) : shared * list thread * list (nat * option V) :=
  let '(s, ths, obs) := st in
  match nth_error ths i with
  | Some t =>
    match prog t with
    | a :: r =>
      let '(s', o) := step s a in
      let t' := mkThread r (match a with AOnce => true | _ => passed t end) in
      (s', nth_upd ths i (fun _ => t'), match o with Some v => obs ++ [(i, v)] | None => obs end)
    | [] => st
    end
  | None => st
  end.

Definition run (sched : list nat) (ths : list thread) : shared * list thread * list (nat * option V) :=
  fold_left sched_step sched (shared0, ths, []).

(** the invariant: once some thread has passed its AOnce, the cell holds the table *)
Definition inv (st : shared * list thread * list (nat * option V)) : Prop :=
  let '(s, ths, obs) := st in
  Forall wf_thread ths /\
  (once_done s = true -> cell s = Some table) /\
  (Exists (fun t => passed t = true) ths -> once_done s = true) /\
  Forall (fun o => snd o = Some table) obs.

Hypothesis only_init : forallb site_is_once_init sites = true.

Lemma no_other_write w v : ~ allowed (AWrite w v).
Proof.
  intros [Hin Hno]. rewrite forallb_forall in only_init. rewrite (only_init _ Hin) in Hno. discriminate.
Qed.

Lemma nth_upd_Forall {A} (P : A -> Prop) l i f : Forall P l -> (forall x, P x -> P (f x)) -> Forall P (nth_upd l i f).
Proof.
  intros H Hf. revert i. induction H as [|x r Hx Hr IH]; intros i; [constructor|].
  destruct i; cbn; constructor; auto.
Qed.

Lemma nth_error_Forall {A} (P : A -> Prop) l i x : Forall P l -> nth_error l i = Some x -> P x.
Proof. intros H E. rewrite Forall_forall in H. apply H. eapply nth_error_In; eassumption. Qed.

Lemma nth_upd_Exists {A} (P : A -> Prop) l i (y : A) : Exists P (nth_upd l i (fun _ => y)) -> P y \/ Exists P l.
Proof.
  revert i. induction l as [|x r IH]; intros i H; [inversion H|].
  destruct i; cbn in H.
  - inversion H; subst; [left; assumption|right; apply Exists_cons_tl; assumption].
  - inversion H; subst; [right; apply Exists_cons_hd; assumption|].
    destruct (IH _ H1) as [Hy|Hr]; [left; exact Hy|right; apply Exists_cons_tl; exact Hr].
Qed.

Lemma nth_error_Exists {A} (P : A -> Prop) l i x : nth_error l i = Some x -> P x -> Exists P l.
Proof. intros E Hx. apply Exists_exists. exists x. split; [eapply nth_error_In; eassumption|exact Hx]. Qed.

Lemma inv_step st i : inv st -> inv (sched_step st i).
Proof.
  destruct st as [[s ths] obs]. intros (Hwf & Hcell & Hpassed & Hobs). unfold sched_step.
  destruct (nth_error ths i) as [t|] eqn:Et; [|repeat split; assumption].
  pose proof (nth_error_Forall _ _ _ _ Hwf Et) as [Hall Hguard].
  destruct (prog t) as [|a r] eqn:Ep; [repeat split; assumption|].
  inversion Hall as [|a0 r0 Ha Hr]; subst.
  destruct a as [| |w v].
  - (* once *) cbn [step]. cbn [reads_guarded] in Hguard.
    assert (Hths : Forall wf_thread (nth_upd ths i (fun _ => mkThread r true))).
    { apply nth_upd_Forall; [exact Hwf|]. intros _ _. split; [exact Hr|exact Hguard]. }
    destruct (once_done s) eqn:Ed.
    + split; [exact Hths|]. split; [intros _; apply Hcell; reflexivity|]. split; [intros _; exact Ed|exact Hobs].
    + split; [exact Hths|]. split; [intros _; reflexivity|]. split; [intros _; reflexivity|exact Hobs].
  - (* read *) cbn [step]. cbn [reads_guarded] in Hguard. destruct Hguard as [Hp Hguard].
    assert (Hd : once_done s = true) by (apply Hpassed; eapply nth_error_Exists; eassumption).
    repeat split; try assumption.
    + apply nth_upd_Forall; [exact Hwf|]. intros _ _. split; [exact Hr|exact Hguard].
    + intros Hex. apply nth_upd_Exists in Hex as [Hy|Hex]; [exact Hd|apply Hpassed; exact Hex].
    + apply Forall_app. split; [exact Hobs|]. constructor; [cbn; apply Hcell; exact Hd|constructor].
  - (* any other write: impossible, the table lists none *)
    exfalso. exact (no_other_write _ _ Ha).
Qed.

Lemma inv_run : forall sched st, inv st -> inv (fold_left sched_step sched st).
Proof. induction sched as [|i r IH]; intros st H; [exact H|]. cbn [fold_left]. apply IH. apply inv_step. exact H. Qed.

(** Every value any call reads, in any interleaving of any number of calls, is the initialised
    table: no call can observe another call, or the absence of initialisation. *)
Theorem reads_see_the_table sched ths : Forall wf_thread ths -> Forall (fun t => passed t = false) ths ->
  Forall (fun o => snd o = Some table) (snd (run sched ths)).
Proof.
  intros Hwf Hfresh. unfold run.
  assert (Hinv : inv (shared0, ths, [])).
  { repeat split; [exact Hwf|discriminate| |constructor].
    intros Hex. apply Exists_exists in Hex as (t & Hin & Hp). rewrite Forall_forall in Hfresh. rewrite (Hfresh _ Hin) in Hp. discriminate. }
  pose proof (inv_run sched _ Hinv) as H. destruct (fold_left sched_step sched (shared0, ths, [])) as [[s ths'] obs].
  destruct H as (_ & _ & _ & Hobs). exact Hobs.
Qed.
End Machine.

(** with the generated table *)
Theorem compile_calls_do_not_interfere (V : Type) (table : V) sched ths :
  Forall (wf_thread V write_sites) ths -> Forall (fun t => passed V t = false) ths ->
  Forall (fun o => snd o = Some table) (snd (run V table sched ths)).
Proof. apply reads_see_the_table. exact shared_writes_only_once_init. Qed.
