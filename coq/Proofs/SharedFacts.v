(** * Shared state (C14): every syntactic write to a package-level variable of pql, parser and
    cmd/pql (the table [write_sites], regenerated from the source on every run) is guarded: it sits
    inside a function literal handed to the Do method of a package-level sync.Once ("once"), or
    inside a package-level func init(), which runs before any other code of the program on one
    goroutine ("init").  Kept apart from the other table facts so that a change of this table
    concerns C14 only. *)
From PQL Require Import Model.Base Gen.Shared.
From Coq Require Import String.

Definition site_is_once_init (w : write_site) : bool :=
  str_eqb (ws_guard w) (L "once") || str_eqb (ws_guard w) (L "init").

Lemma shared_writes_only_once_init : forallb site_is_once_init write_sites = true.
Proof. vm_compute. reflexivity. Qed.
