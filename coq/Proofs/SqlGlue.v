(** * SqlGlue: the bytes of the printed SQL lex into the tokens of its pieces.
    The token-level theorems (ReadBack*.v) view the writer's output as the token list [ptoks ps];
    here the concatenated bytes [render ps] are shown to lex, with the dialect's lexer of
    Spec/SqlLex.v, into exactly those tokens, provided neighbouring characters across and inside
    pieces are compatible ([glue_ok], a decidable check): no `--`, no `/*`, no two-character
    operator or doubled quote formed across a boundary, no word or number running into the next
    piece.  Proofs/SqlGlueWriter.v then shows that everything the writer prints satisfies [glue_ok]. *)
From PQL Require Import Model.Compile Spec.SqlLex Proofs.QuoteFacts.
From Coq Require Import Lia ZifyBool ZifyNat ZifyN.
Local Open Scope list_scope.
Local Open Scope nat_scope.
Local Notation length := List.length (only parsing).

(** ** atoms: the lexical units the writer prints *)
Inductive atom :=
| ASp (c : N)              (* one white-space character *)
| AP1 (c : N)              (* a one-character operator or punctuation *)
| AP2 (c d : N)            (* a two-character operator *)
| AWord (w : str)
| ANum (v : str)
| AQuo (q : N) (s : str).  (* "..." or '...' with the content escaped *)

Definition atom_text (a : atom) : str :=
  match a with
  | ASp c => [c] | AP1 c => [c] | AP2 c d => [c; d] | AWord w => w | ANum v => v
  | AQuo q s => quote_with q s
  end.

Definition atom_tok (a : atom) : list stok :=
  match a with
  | ASp _ => []
  | AP1 c => [SPunct [c]] | AP2 c d => [SPunct [c; d]]
  | AWord w => [SWord w] | ANum v => [SNumber v]
  | AQuo q s => [if (q =? 34)%N then SQuoted s else SString s]
  end.

Definition atoms_text (l : list atom) : str := flat_map atom_text l.
Definition atoms_toks (l : list atom) : list stok := flat_map atom_tok l.

(** one-character punctuation that the writer prints *)
Definition p1_chars : list N := [40; 41; 91; 93; 44; 59; 42; 37; 61; 43; 45; 47; 60; 62; 46]%N.
Definition p2_ops : list (N * N) := [(60, 62); (60, 61); (62, 61); (124, 124)]%N.

Definition last_char (s : str) : option N := match rev s with c :: _ => Some c | [] => None end.

Definition is_num_text (v : str) : bool :=
  Nat.eqb (number_len v) (length v) && match v with c :: _ => is_digit c | [] => false end
  && match last_char v with Some x => is_digit x || (x =? 46)%N | None => false end.

Definition is_word_text (w : str) : bool :=
  match w with c :: r => is_word_start c && forallb is_word_char r | [] => false end.

Definition atom_wf (a : atom) : bool :=
  match a with
  | ASp c => is_sql_space c
  | AP1 c => existsb (N.eqb c) p1_chars
  | AP2 c d => existsb (fun p => (fst p =? c)%N && (snd p =? d)%N) p2_ops
  | AWord w => is_word_text w
  | ANum v => is_num_text v
  | AQuo q _ => (q =? 34)%N || (q =? 39)%N
  end.

(** may character [y] directly follow character [x]?  (an over-approximation of "the lexer would
    read them apart") *)
Definition compat (x y : N) : bool :=
  negb (is_word_char x && (is_word_char y || (y =? 46)%N))     (* a word or number runs on *)
  && negb ((x =? 46)%N && (is_word_char y || (y =? 46)%N))      (* .5 , 1.e5 , 1.. *)
  && negb ((x =? 45)%N && (y =? 45)%N)                          (* -- *)
  && negb ((x =? 47)%N && (y =? 42)%N)                          (* /* *)
  && negb ((x =? 60)%N && ((y =? 62)%N || (y =? 61)%N))         (* <> <= *)
  && negb ((x =? 62)%N && (y =? 61)%N)                          (* >= *)
  && negb ((x =? 124)%N && (y =? 124)%N)                        (* || *)
  && negb ((x =? 34)%N && (y =? 34)%N)                          (* "" *)
  && negb ((x =? 39)%N && (y =? 39)%N).                         (* '' *)

Lemma compat_parts x y : compat x y = true ->
  (is_word_char x && (is_word_char y || (y =? 46)%N)) = false /\
  ((x =? 46)%N && (is_word_char y || (y =? 46)%N)) = false /\
  ((x =? 45)%N && (y =? 45)%N) = false /\
  ((x =? 47)%N && (y =? 42)%N) = false /\
  ((x =? 60)%N && ((y =? 62)%N || (y =? 61)%N)) = false /\
  ((x =? 62)%N && (y =? 61)%N) = false /\
  ((x =? 124)%N && (y =? 124)%N) = false /\
  ((x =? 34)%N && (y =? 34)%N) = false /\
  ((x =? 39)%N && (y =? 39)%N) = false.
Proof.
  unfold compat. intros H.
  repeat match type of H with _ && _ = true => let H2 := fresh "P" in apply andb_prop in H as [H H2]; apply Bool.negb_true_iff in H2 end.
  apply Bool.negb_true_iff in H. repeat split; assumption.
Qed.

Definition hd_compat (x : N) (rest : str) : bool :=
  match rest with [] => true | y :: _ => compat x y end.

Definition follows_ok (s : str) (rest : str) : bool :=
  match last_char s with Some x => hd_compat x rest | None => true end.

(** ** one lexer step per atom *)
Lemma step_space m f c r : is_sql_space c = true -> sql_lex_fuel (S f) m (c :: r) = sql_lex_fuel f m r.
Proof. intros H. cbn [sql_lex_fuel]. rewrite H. reflexivity. Qed.

Lemma number_len_nondigit c r : is_digit c = false -> (c =? 46)%N = false -> number_len (c :: r) = 0.
Proof. intros Hd Hdot. unfold number_len. cbn [take_while]. rewrite Hd. cbn [length skipn]. rewrite Hdot. reflexivity. Qed.

Lemma number_len_dot r : (match r with y :: _ => is_digit y = false | [] => True end) -> number_len (46%N :: r) = 0.
Proof.
  intros H. unfold number_len. cbn [take_while]. replace (is_digit 46) with false by reflexivity. cbn [length skipn].
  replace (46 =? 46)%N with true by reflexivity.
  destruct r as [|y r']; [reflexivity|]. cbn [take_while]. rewrite H. reflexivity.
Qed.

Lemma two_char_none c y : compat c y = true -> existsb (N.eqb c) p1_chars = true ->
  existsb (fun p => (fst p =? c)%N && (snd p =? y)%N) two_char_ops = false.
Proof.
  intros Hc Hp. destruct (compat_parts c y Hc) as (_ & _ & _ & _ & H60 & H62 & H124 & _ & _). clear Hc.
  unfold p1_chars, two_char_ops in *. cbn [existsb fst snd] in *. lia.
Qed.

Lemma step_p1 m f c r : existsb (N.eqb c) p1_chars = true -> hd_compat c r = true -> length r < f ->
  sql_lex_fuel (S f) m (c :: r) = option_map (cons (SPunct [c])) (sql_lex_fuel f m r).
Proof.
  intros Hp Hc Hf.
  assert (Hcases : (c = 40 \/ c = 41 \/ c = 91 \/ c = 93 \/ c = 44 \/ c = 59 \/ c = 42 \/ c = 37 \/ c = 61 \/ c = 43 \/ c = 45 \/ c = 47 \/ c = 60 \/ c = 62 \/ c = 46)%N).
  { unfold p1_chars in Hp. cbn [existsb] in Hp. lia. }
  assert (Hsp : is_sql_space c = false) by (unfold is_sql_space; lia).
  assert (Hws : is_word_start c = false) by (unfold is_word_start, is_alpha, in_range; lia).
  assert (Hq : (c =? 34)%N = false /\ (c =? 39)%N = false /\ (c =? 123)%N = false) by lia.
  destruct Hq as (Hq1 & Hq2 & Hq3).
  assert (Hone : existsb (N.eqb c) one_char_puncts = true) by (unfold one_char_puncts; cbn [existsb]; lia).
  assert (Hnum : number_len (c :: r) = 0).
  { destruct (N.eq_dec c 46) as [->|Hne].
    - apply number_len_dot. destruct r as [|y r']; [exact I|]. cbn [hd_compat] in Hc.
      destruct (compat_parts _ _ Hc) as (_ & H46 & _). clear Hc Hcases Hp Hone.
      unfold is_word_char, is_digit, is_alpha, in_range in *. lia.
    - apply number_len_nondigit; [unfold is_digit, in_range; lia|lia]. }
  cbn [sql_lex_fuel]. rewrite Hsp.
  assert (Hcm : ((c =? 45)%N && match r with c2 :: _ => (c2 =? 45)%N | [] => false end) = false).
  { destruct r as [|y r']; [apply Bool.andb_false_r|]. cbn [hd_compat] in Hc. destruct (compat_parts _ _ Hc) as (_ & _ & H & _). exact H. }
  assert (Hbc : ((c =? 47)%N && match r with c2 :: _ => (c2 =? 42)%N | [] => false end) = false).
  { destruct r as [|y r']; [apply Bool.andb_false_r|]. cbn [hd_compat] in Hc. destruct (compat_parts _ _ Hc) as (_ & _ & _ & H & _). exact H. }
  rewrite Hcm, Hbc, Hq1, Hq2, Hq3, Hws, Hnum. cbn [Nat.eqb negb].
  destruct r as [|y r'].
  - rewrite Hone. destruct f; [cbn [length] in Hf; lia|reflexivity].
  - rewrite (two_char_none c y Hc Hp), Hone. reflexivity.
Qed.

Lemma step_p2 m f c d r : existsb (fun p => (fst p =? c)%N && (snd p =? d)%N) p2_ops = true ->
  sql_lex_fuel (S f) m (c :: d :: r) = option_map (cons (SPunct [c; d])) (sql_lex_fuel f m r).
Proof.
  intros Hp.
  assert (Hcases : ((c = 60 /\ d = 62) \/ (c = 60 /\ d = 61) \/ (c = 62 /\ d = 61) \/ (c = 124 /\ d = 124))%N).
  { unfold p2_ops in Hp. cbn [existsb fst snd] in Hp. lia. }
  destruct Hcases as [[-> ->]|[[-> ->]|[[-> ->]|[-> ->]]]]; cbn [sql_lex_fuel is_sql_space is_word_start is_alpha in_range N.eqb Pos.eqb N.leb andb orb];
    rewrite number_len_nondigit by reflexivity; reflexivity.
Qed.

Lemma take_while_app_stop p (w rest : str) : forallb p w = true -> (match rest with y :: _ => p y = false | [] => True end) ->
  take_while p (w ++ rest) = w.
Proof.
  induction w as [|c r IH]; intros Hw Hr; cbn [app take_while forallb] in *.
  - destruct rest as [|y r']; [reflexivity|]. cbn [take_while]. rewrite Hr. reflexivity.
  - apply andb_prop in Hw as [Hc Hw]. rewrite Hc, (IH Hw Hr). reflexivity.
Qed.

Lemma skipn_app_exact {A} (a b : list A) : skipn (length a) (a ++ b) = b.
Proof. induction a as [|x a IH]; cbn [length skipn app]; [reflexivity|exact IH]. Qed.
Lemma firstn_app_exact {A} (a b : list A) : firstn (length a) (a ++ b) = a.
Proof. induction a as [|x a IH]; cbn [length firstn app]; [reflexivity|rewrite IH; reflexivity]. Qed.

Lemma step_word m f w r : is_word_text w = true -> (match r with y :: _ => is_word_char y = false | [] => True end) ->
  sql_lex_fuel (S f) m (w ++ r) = option_map (cons (SWord w)) (sql_lex_fuel f m r).
Proof.
  intros Hw Hr. destruct w as [|c w']; [discriminate|]. cbn [is_word_text] in Hw. apply andb_prop in Hw as [Hc Hw'].
  assert (Hsp : is_sql_space c = false) by (unfold is_word_start, is_alpha, in_range, is_sql_space in *; lia).
  assert (H45 : (c =? 45)%N = false /\ (c =? 47)%N = false /\ (c =? 34)%N = false /\ (c =? 39)%N = false /\ (c =? 123)%N = false)
    by (unfold is_word_start, is_alpha, in_range in *; lia).
  destruct H45 as (H1 & H2 & H3 & H4 & H5).
  cbn [app sql_lex_fuel]. rewrite Hsp, H1, H2, H3, H4, H5, Hc. cbn [andb].
  rewrite (take_while_app_stop is_word_char w' r Hw' Hr).
  change (c :: w' ++ r) with ((c :: w') ++ r). rewrite skipn_app_exact. reflexivity.
Qed.

Lemma step_quoted f q s r : ((q =? 34)%N || (q =? 39)%N) = true -> (match r with y :: _ => (y =? q)%N = false | [] => True end) ->
  sql_lex_fuel (S f) ClickHouse (quote_with q s ++ r) =
    option_map (cons (if (q =? 34)%N then SQuoted s else SString s)) (sql_lex_fuel f ClickHouse r).
Proof.
  intros Hq Hr. rewrite quote_with_eq. cbn [app]. rewrite <- app_assoc. cbn [app].
  assert (Hne : q <> 92%N) by lia.
  pose proof (quoted_tail_clickhouse q s Hne r Hr) as Ht.
  assert (Hq' : q = 34%N \/ q = 39%N) by lia.
  destruct Hq' as [-> | ->]; cbn [sql_lex_fuel is_sql_space N.eqb Pos.eqb orb andb]; rewrite Ht; reflexivity.
Qed.

(** a number spelling followed by something that cannot extend it *)
Definition num_stop (r : str) : Prop :=
  match r with y :: _ => is_digit y = false /\ (y =? 46)%N = false /\ (y =? 101)%N = false /\ (y =? 69)%N = false | [] => True end.

Lemma take_while_app_all p (a b : str) : forallb p a = true -> take_while p (a ++ b) = a ++ take_while p b.
Proof. induction a as [|c r IH]; cbn [app take_while forallb]; [reflexivity|]. intros H. apply andb_prop in H as [Hc Hr]. rewrite Hc, (IH Hr). reflexivity. Qed.

Lemma take_while_split p (l : str) : l = take_while p l ++ skipn (length (take_while p l)) l.
Proof. induction l as [|c r IH]; cbn [take_while]; [reflexivity|]. destruct (p c); cbn [length skipn app]; [f_equal; exact IH|reflexivity]. Qed.

Lemma take_while_forall p (l : str) : forallb p (take_while p l) = true.
Proof. induction l as [|c r IH]; cbn [take_while forallb]; [reflexivity|]. destruct (p c) eqn:E; cbn [forallb]; [rewrite E; exact IH|reflexivity]. Qed.

Lemma take_while_next p (l : str) : match skipn (length (take_while p l)) l with y :: _ => p y = false | [] => True end.
Proof. induction l as [|c r IH]; cbn [take_while]; [exact I|]. destruct (p c) eqn:E; cbn [length skipn]; [exact IH|exact E]. Qed.

Lemma tw_length p (l : str) : length (take_while p l) <= length l.
Proof. induction l as [|c r IH]; cbn [take_while length]; [lia|]. destruct (p c); cbn [length]; lia. Qed.

(** [number_len] in three stages *)
Definition frac_len (d1 : nat) (r1 : str) : nat :=
  match r1 with
  | c :: r => if (c =? 46)%N then
                let d2 := length (take_while is_digit r) in
                if Nat.eqb d1 0 && Nat.eqb d2 0 then 0 else S d2
              else 0
  | [] => 0
  end.

Definition exp_len (r2 : str) : nat :=
  match r2 with
  | e :: r =>
    if (e =? 101)%N || (e =? 69)%N then
      match r with
      | s :: r' =>
        if (s =? 43)%N || (s =? 45)%N then
          match take_while is_digit r' with [] => 0 | ds => 2 + length ds end
        else match take_while is_digit r with [] => 0 | ds => 1 + length ds end
      | [] => 0
      end
    else 0
  | [] => 0
  end.

Lemma number_len_stages l :
  number_len l =
    let d1 := length (take_while is_digit l) in
    let r1 := skipn d1 l in
    let frac := frac_len d1 r1 in
    if Nat.eqb d1 0 && Nat.eqb frac 0 then 0 else d1 + frac + exp_len (skipn frac r1).
Proof. reflexivity. Qed.

Lemma stop_nondigit r : num_stop r -> match r with y :: _ => is_digit y = false | [] => True end.
Proof. destruct r; [trivial|]. intros (H & _). exact H. Qed.

(** digits, then something that is not a digit: the run of digits of [l ++ r] is that of [l] when
    [l]'s own run is followed, inside [l ++ r], by a non-digit *)
Lemma digits_app l r : (match skipn (length (take_while is_digit l)) l ++ r with y :: _ => is_digit y = false | [] => True end) ->
  take_while is_digit (l ++ r) = take_while is_digit l /\
  skipn (length (take_while is_digit l)) (l ++ r) = skipn (length (take_while is_digit l)) l ++ r.
Proof.
  induction l as [|c l' IH]; cbn [take_while app length skipn]; intros H.
  - split; [|reflexivity]. destruct r as [|y r']; [reflexivity|]. cbn [take_while]. cbn [app] in H. rewrite H. reflexivity.
  - destruct (is_digit c) eqn:E; cbn [length skipn app] in *.
    + destruct (IH H) as [H1 H2]. rewrite H1, H2. split; reflexivity.
    + split; reflexivity.
Qed.

Lemma hd_app_nonempty (a r : str) (P : N -> Prop) : a <> [] -> (match a with y :: _ => P y | [] => True end) ->
  match a ++ r with y :: _ => P y | [] => True end.
Proof. destruct a; [congruence|]. intros _ H. exact H. Qed.

Lemma exp_len_app r2 r : exp_len r2 = length r2 -> num_stop r -> exp_len (r2 ++ r) = exp_len r2.
Proof.
  intros Hall Hs. destruct r2 as [|e rr]; cbn [app].
  - unfold exp_len. destruct r as [|y r']; [reflexivity|]. destruct Hs as (_ & _ & H1 & H2). rewrite H1, H2. reflexivity.
  - unfold exp_len in *. destruct ((e =? 101)%N || (e =? 69)%N); [|cbn [length] in Hall; lia].
    destruct rr as [|s r']; [cbn [length] in Hall; lia|]. cbn [app].
    destruct ((s =? 43)%N || (s =? 45)%N).
    + assert (Hd : take_while is_digit r' = r').
      { pose proof (take_while_split is_digit r') as Hsp. destruct (take_while is_digit r') as [|d ds] eqn:Et; [cbn [length] in Hall; lia|].
        cbn [length] in Hall. assert (Hl : length (d :: ds) = length r') by (cbn [length]; lia).
        rewrite Hl, skipn_all, app_nil_r in Hsp. symmetry. exact Hsp. }
      assert (Hda : take_while is_digit (r' ++ r) = r').
      { apply take_while_app_stop; [rewrite <- Hd; apply take_while_forall|apply stop_nondigit; exact Hs]. }
      rewrite Hda, Hd. reflexivity.
    + assert (Hd : take_while is_digit (s :: r') = s :: r').
      { pose proof (take_while_split is_digit (s :: r')) as Hsp. destruct (take_while is_digit (s :: r')) as [|d ds] eqn:Et; [cbn [length] in Hall; lia|].
        cbn [length] in Hall. assert (Hl : length (d :: ds) = length (s :: r')) by (cbn [length]; lia).
        rewrite Hl, skipn_all, app_nil_r in Hsp. symmetry. exact Hsp. }
      assert (Hda : take_while is_digit ((s :: r') ++ r) = s :: r').
      { apply take_while_app_stop; [rewrite <- Hd; apply take_while_forall|apply stop_nondigit; exact Hs]. }
      cbn [app] in Hda. rewrite Hda, Hd. reflexivity.
Qed.

Lemma number_len_app v r : number_len v = length v -> v <> [] -> num_stop r -> number_len (v ++ r) = length v.
Proof.
  intros Hall Hne Hs. rewrite <- Hall. rewrite !number_len_stages. cbv zeta.
  set (T := take_while is_digit v) in *. set (d1 := length T) in *. set (R1 := skipn d1 v) in *.
  assert (Hv : v = T ++ R1) by (apply take_while_split).
  assert (HR1 : match R1 with y :: _ => is_digit y = false | [] => True end) by (apply take_while_next).
  rewrite number_len_stages in Hall. cbv zeta in Hall. fold T d1 R1 in Hall.
  assert (Hlen : length v = d1 + length R1) by (rewrite Hv at 1; rewrite app_length; reflexivity).
  (* the run of digits *)
  assert (Hdig : match R1 ++ r with y :: _ => is_digit y = false | [] => True end).
  { destruct R1 as [|y R1']; [cbn [app]; apply stop_nondigit; exact Hs|exact HR1]. }
  destruct (digits_app v r Hdig) as [Ht Hsk]. fold T d1 R1 in Ht, Hsk. rewrite Ht. fold d1. rewrite Hsk.
  (* the fraction *)
  assert (Hfrac : frac_len d1 (R1 ++ r) = frac_len d1 R1 /\ skipn (frac_len d1 R1) (R1 ++ r) = skipn (frac_len d1 R1) R1 ++ r).
  { destruct R1 as [|c rr]; cbn [app].
    - unfold frac_len. destruct r as [|y r']; [split; reflexivity|]. destruct Hs as (_ & H46 & _). rewrite H46. split; reflexivity.
    - unfold frac_len. destruct (c =? 46)%N eqn:E46; [|split; reflexivity].
      set (D2 := take_while is_digit rr). set (R2 := skipn (length D2) rr).
      assert (Hd2 : match R2 ++ r with y :: _ => is_digit y = false | [] => True end).
      { pose proof (take_while_next is_digit rr) as Hn. fold D2 R2 in Hn.
        destruct R2 as [|y R2']; [cbn [app]; apply stop_nondigit; exact Hs|exact Hn]. }
      destruct (digits_app rr r Hd2) as [Ht2 Hsk2]. fold D2 R2 in Ht2, Hsk2. rewrite Ht2. fold D2.
      destruct (Nat.eqb d1 0 && Nat.eqb (length D2) 0); [split; reflexivity|].
      split; [reflexivity|]. cbn [skipn]. exact Hsk2. }
  destruct Hfrac as [Hf1 Hf2]. rewrite Hf1, Hf2.
  destruct (Nat.eqb d1 0 && Nat.eqb (frac_len d1 R1) 0) eqn:Ez.
  { (* nothing of [v] is a number: impossible, v is non-empty and number_len v = length v *)
    destruct v; [congruence|cbn [length] in Hall; lia]. }
  cbv iota in Hall.
  (* the exponent covers the rest of [v] *)
  assert (Hfl : frac_len d1 R1 <= length R1).
  { unfold frac_len. destruct R1 as [|c rr]; [lia|]. destruct (c =? 46)%N; [|lia].
    pose proof (tw_length is_digit rr). destruct (Nat.eqb d1 0 && Nat.eqb (length (take_while is_digit rr)) 0); cbn [length]; lia. }
  assert (Hex : exp_len (skipn (frac_len d1 R1) R1) = length (skipn (frac_len d1 R1) R1)) by (rewrite skipn_length; lia).
  rewrite (exp_len_app _ r Hex Hs). reflexivity.
Qed.

Lemma step_num m f v r : is_num_text v = true -> num_stop r ->
  sql_lex_fuel (S f) m (v ++ r) = option_map (cons (SNumber v)) (sql_lex_fuel f m r).
Proof.
  intros Hv Hr. unfold is_num_text in Hv. apply andb_prop in Hv as [Hv _]. apply andb_prop in Hv as [Hn Hd]. apply Nat.eqb_eq in Hn.
  destruct v as [|c v']; [discriminate|].
  assert (Hlen : number_len ((c :: v') ++ r) = length (c :: v')) by (apply number_len_app; [exact Hn|congruence|exact Hr]).
  assert (Hsp : is_sql_space c = false) by (unfold is_digit, in_range, is_sql_space in *; lia).
  assert (H45 : (c =? 45)%N = false /\ (c =? 47)%N = false /\ (c =? 34)%N = false /\ (c =? 39)%N = false /\ (c =? 123)%N = false)
    by (unfold is_digit, in_range in *; lia).
  destruct H45 as (H1 & H2 & H3 & H4 & H5).
  assert (Hws : is_word_start c = false) by (unfold is_digit, is_word_start, is_alpha, in_range in *; lia).
  cbn [app sql_lex_fuel]. rewrite Hsp, H1, H2, H3, H4, H5, Hws. cbn [andb].
  change (c :: v' ++ r) with ((c :: v') ++ r). rewrite Hlen. cbn [length Nat.eqb negb].
  change (S (length v')) with (length (c :: v')). rewrite firstn_app_exact, skipn_app_exact. reflexivity.
Qed.

(** ** a sequence of atoms, followed by the character [nx] (if any) *)
Definition nx_compat (x : N) (nx : option N) : bool := match nx with Some y => compat x y | None => true end.
Definition first_of (s : str) (nx : option N) : option N := match s with c :: _ => Some c | [] => nx end.
Definition atom_follow (a : atom) (nx : option N) : bool :=
  match last_char (atom_text a) with Some x => nx_compat x nx | None => true end.

Fixpoint glue_atoms (l : list atom) (nx : option N) : bool :=
  match l with
  | [] => true
  | a :: r => atom_wf a && atom_follow a (first_of (atoms_text r) nx) && glue_atoms r nx
  end.

Lemma last_char_snoc (s : str) x : last_char (s ++ [x]) = Some x.
Proof. unfold last_char. rewrite rev_app_distr. reflexivity. Qed.

Lemma last_char_cons c (s : str) : s <> [] -> last_char (c :: s) = last_char s.
Proof. intros H. unfold last_char. cbn [rev]. destruct (rev s) as [|x r] eqn:E; [|reflexivity]. apply (f_equal (@rev N)) in E. rewrite rev_involutive in E. contradiction. Qed.

Lemma last_char_in p (s : str) x : forallb p s = true -> last_char s = Some x -> p x = true.
Proof.
  intros Hp Hl. unfold last_char in Hl. destruct (rev s) as [|y r] eqn:E; [discriminate|]. injection Hl as ->.
  rewrite forallb_forall in Hp. apply Hp. apply in_rev. rewrite E. left. reflexivity.
Qed.

Lemma first_of_app (a b : str) nx : first_of (a ++ b) nx = first_of a (first_of b nx).
Proof. destruct a; reflexivity. Qed.

Lemma hd_of_first (r : str) (P : N -> Prop) nx : (forall y, first_of r nx = Some y -> P y) -> match r with y :: _ => P y | [] => True end.
Proof. destruct r as [|y r']; [trivial|]. intros H. apply H. reflexivity. Qed.

Lemma word_start_char c : is_word_start c = true -> is_word_char c = true.
Proof. unfold is_word_start, is_word_char. lia. Qed.

Lemma atom_nonempty a : atom_wf a = true -> 1 <= length (atom_text a).
Proof.
  destruct a; cbn [atom_wf atom_text length]; try lia.
  - unfold is_word_text. destruct w; [discriminate|cbn [length]; lia].
  - unfold is_num_text. destruct v; [cbn [andb]; discriminate|cbn [length]; lia].
  - intros _. rewrite quote_with_eq. cbn [length]. lia.
Qed.

Theorem lex_atoms : forall l b f, glue_atoms l (first_of b None) = true -> length (atoms_text l ++ b) < f ->
  sql_lex_fuel f ClickHouse (atoms_text l ++ b) = option_map (app (atoms_toks l)) (sql_lex_fuel (f - length l) ClickHouse b).
Proof.
  induction l as [|a r IH]; intros b f Hg Hf.
  - cbn [atoms_text atoms_toks flat_map app length]. rewrite Nat.sub_0_r. destruct (sql_lex_fuel f ClickHouse b); reflexivity.
  - cbn [glue_atoms] in Hg. apply andb_prop in Hg as [Hg Hr]. apply andb_prop in Hg as [Hwf Hfo].
    unfold atoms_text in *. cbn [flat_map] in *. fold (atoms_text r) in *. rewrite <- app_assoc in *.
    set (R := atoms_text r ++ b) in *.
    assert (Hnx : first_of (atoms_text r) (first_of b None) = first_of R None) by (unfold R; rewrite first_of_app; reflexivity).
    rewrite Hnx in Hfo.
    pose proof (atom_nonempty a Hwf) as Hne. rewrite app_length in Hf.
    destruct f as [|f]; [lia|].
    assert (IHr : sql_lex_fuel f ClickHouse R = option_map (app (atoms_toks r)) (sql_lex_fuel (f - length r) ClickHouse b)).
    { apply IH; [exact Hr|unfold R in *; lia]. }
    cbn [length]. replace (S f - S (length r)) with (f - length r) by lia.
    cbn [atoms_toks flat_map]. fold (atoms_toks r).
    assert (Hfin : forall t, option_map (cons t) (option_map (app (atoms_toks r)) (sql_lex_fuel (f - length r) ClickHouse b))
                      = option_map (app (t :: atoms_toks r)) (sql_lex_fuel (f - length r) ClickHouse b))
      by (intros t; destruct (sql_lex_fuel _ _ b); reflexivity).
    destruct a as [c|c|c d|w|v|q s0]; cbn [atom_wf atom_text atom_tok app] in *.
    + rewrite step_space by exact Hwf. exact IHr.
    + rewrite step_p1; [rewrite IHr; apply Hfin|exact Hwf| |cbn [length] in Hf; lia].
      unfold atom_follow in Hfo. cbn [atom_text last_char rev app] in Hfo. unfold hd_compat. destruct R as [|y R']; [reflexivity|exact Hfo].
    + rewrite step_p2 by exact Hwf. rewrite IHr. apply Hfin.
    + rewrite step_word; [rewrite IHr; apply Hfin|exact Hwf|].
      apply (hd_of_first R _ None). intros y Hy. unfold atom_follow in Hfo. cbn [atom_text] in Hfo.
      destruct (last_char w) as [x|] eqn:El.
      * rewrite Hy in Hfo. cbn [nx_compat] in Hfo.
        assert (Hx : is_word_char x = true).
        { unfold is_word_text in Hwf. destruct w as [|c w']; [discriminate|]. apply andb_prop in Hwf as [Hc Hw'].
          apply (last_char_in is_word_char (c :: w') x); [cbn [forallb]; rewrite (word_start_char c Hc), Hw'; reflexivity|exact El]. }
        destruct (compat_parts _ _ Hfo) as (P1 & _). rewrite Hx in P1. cbn [andb] in P1. apply Bool.orb_false_iff in P1 as [P1 _]. exact P1.
      * unfold is_word_text in Hwf. destruct w as [|c w']; [discriminate|]. unfold last_char in El. cbn [rev] in El. destruct (rev w'); discriminate.
    + rewrite step_num; [rewrite IHr; apply Hfin|exact Hwf|].
      unfold num_stop. apply (hd_of_first R _ None). intros y Hy. unfold atom_follow in Hfo. cbn [atom_text] in Hfo.
      unfold is_num_text in Hwf. apply andb_prop in Hwf as [_ Hlast].
      destruct (last_char v) as [x|]; [|discriminate]. rewrite Hy in Hfo. cbn [nx_compat] in Hfo.
      destruct (compat_parts _ _ Hfo) as (P1 & P2 & _). clear Hfo.
      assert (Hyy : (is_word_char y || (y =? 46)%N) = false).
      { apply Bool.orb_true_iff in Hlast as [Hd|Hd].
        - assert (Hw : is_word_char x = true) by (unfold is_word_char; rewrite Hd; apply Bool.orb_true_iff; left; apply Bool.orb_true_iff; left; apply Bool.orb_true_r).
          rewrite Hw in P1. exact P1.
        - rewrite Hd in P2. exact P2. }
      apply Bool.orb_false_iff in Hyy as [Hw H46]. clear - Hw H46.
      unfold is_word_char, is_alpha, is_digit, in_range in *. lia.
    + rewrite step_quoted; [rewrite IHr; apply Hfin|exact Hwf|].
      apply (hd_of_first R _ None). intros y Hy. unfold atom_follow in Hfo. cbn [atom_text] in Hfo.
      rewrite quote_with_eq in Hfo. change (q :: flat_map (esc q) s0 ++ [q]) with ((q :: flat_map (esc q) s0) ++ [q]) in Hfo.
      rewrite last_char_snoc in Hfo. rewrite Hy in Hfo. cbn [nx_compat] in Hfo.
      destruct (compat_parts _ _ Hfo) as (_ & _ & _ & _ & _ & _ & _ & P34 & P39). clear Hfo. lia.
Qed.

(** ** template literals: a tokenizer for the restricted alphabet the writer's templates use *)
Fixpoint tmpl_atoms (fuel : nat) (s : str) : option (list atom) :=
  match fuel with
  | O => None
  | S f =>
    match s with
    | [] => Some []
    | c :: r =>
      if is_sql_space c then option_map (cons (ASp c)) (tmpl_atoms f r)
      else if is_word_start c then
        let w := c :: take_while is_word_char r in
        option_map (cons (AWord w)) (tmpl_atoms f (skipn (length (take_while is_word_char r)) r))
      else if (c =? 34)%N then
        let body := take_while (fun x => negb ((x =? 34)%N || (x =? 92)%N)) r in
        match skipn (length body) r with
        | q :: r' => if (q =? 34)%N then option_map (cons (AQuo 34 body)) (tmpl_atoms f r') else None
        | [] => None
        end
      else
        match r with
        | d :: r' =>
          if existsb (fun p => (fst p =? c)%N && (snd p =? d)%N) p2_ops then option_map (cons (AP2 c d)) (tmpl_atoms f r')
          else if existsb (N.eqb c) p1_chars then option_map (cons (AP1 c)) (tmpl_atoms f r) else None
        | [] => if existsb (N.eqb c) p1_chars then Some [AP1 c] else None
        end
    end
  end.

Definition lit_atoms (s : str) : option (list atom) :=
  match tmpl_atoms (S (length s)) s with
  | Some l => if str_eqb (atoms_text l) s then Some l else None
  | None => None
  end.

Definition piece_atoms (p : piece) : option (list atom) :=
  match p with
  | PLit s => lit_atoms s
  | PIdent n => Some [AQuo 34 n]
  | PStr v => Some [AQuo 39 v]
  | PNum v => Some [ANum v]
  | PFunc n => Some [AWord n]
  | PRaw _ | PHole _ => None
  end.

Definition piece_glue (p : piece) (nx : option N) : bool :=
  match piece_atoms p with Some l => glue_atoms l nx | None => false end.

(** [glue_ok]: every piece is made of well-formed atoms and every pair of neighbouring characters,
    inside and across pieces, is compatible *)
Fixpoint pieces_glue (ps : list piece) (nx : option N) : bool :=
  match ps with
  | [] => true
  | p :: r => piece_glue p (first_of (render r) nx) && pieces_glue r nx
  end.
Definition glue_ok (ps : list piece) : bool := pieces_glue ps None.

Fixpoint pieces_atoms (ps : list piece) : option (list atom) :=
  match ps with
  | [] => Some []
  | p :: r => match piece_atoms p, pieces_atoms r with Some a, Some b => Some (a ++ b) | _, _ => None end
  end.

Lemma str_eqb_true a : forall b, str_eqb a b = true -> a = b.
Proof.
  induction a as [|x a IH]; intros [|y b]; cbn [str_eqb]; try discriminate; [reflexivity|].
  intros H. apply andb_prop in H as [H1 H2]. apply N.eqb_eq in H1. rewrite H1, (IH b H2). reflexivity.
Qed.

Lemma piece_atoms_text p l : piece_atoms p = Some l -> atoms_text l = render_piece p.
Proof.
  destruct p; cbn [piece_atoms render_piece]; try discriminate.
  - unfold lit_atoms. destruct (tmpl_atoms _ s) as [l0|]; [|discriminate]. destruct (str_eqb (atoms_text l0) s) eqn:E; [|discriminate].
    intros [= <-]. apply str_eqb_true. exact E.
  - intros [= <-]. cbn [atoms_text flat_map atom_text]. apply app_nil_r.
  - intros [= <-]. cbn [atoms_text flat_map atom_text]. apply app_nil_r.
  - intros [= <-]. cbn [atoms_text flat_map atom_text]. apply app_nil_r.
  - intros [= <-]. cbn [atoms_text flat_map atom_text]. apply app_nil_r.
Qed.

Lemma glue_atoms_app l1 l2 nx : glue_atoms (l1 ++ l2) nx = glue_atoms l1 (first_of (atoms_text l2) nx) && glue_atoms l2 nx.
Proof.
  induction l1 as [|a r IH]; cbn [app glue_atoms]; [reflexivity|].
  rewrite IH. unfold atoms_text at 1. rewrite flat_map_app. fold (atoms_text r) (atoms_text l2). rewrite first_of_app.
  destruct (atom_wf a), (atom_follow a _), (glue_atoms r _), (glue_atoms l2 nx); reflexivity.
Qed.

Lemma atoms_text_app l1 l2 : atoms_text (l1 ++ l2) = atoms_text l1 ++ atoms_text l2.
Proof. unfold atoms_text. apply flat_map_app. Qed.
Lemma atoms_toks_app l1 l2 : atoms_toks (l1 ++ l2) = atoms_toks l1 ++ atoms_toks l2.
Proof. unfold atoms_toks. apply flat_map_app. Qed.

Lemma pieces_glue_atoms : forall ps nx, pieces_glue ps nx = true ->
  exists l, pieces_atoms ps = Some l /\ atoms_text l = render ps /\ glue_atoms l nx = true.
Proof.
  induction ps as [|p r IH]; intros nx H; cbn [pieces_glue pieces_atoms] in *.
  - exists []. repeat split.
  - apply andb_prop in H as [Hp Hr]. destruct (IH nx Hr) as (lr & Er & Tr & Gr).
    unfold piece_glue in Hp. destruct (piece_atoms p) as [lp|] eqn:Ep; [|discriminate].
    exists (lp ++ lr). rewrite Er. split; [reflexivity|]. split.
    + rewrite atoms_text_app, (piece_atoms_text _ _ Ep), Tr. reflexivity.
    + rewrite glue_atoms_app, Tr, Hp, Gr. reflexivity.
Qed.

(** a text made of glued atoms lexes into their tokens *)
Theorem lex_glued l : glue_atoms l None = true -> sql_lex ClickHouse (atoms_text l) = Some (atoms_toks l).
Proof.
  intros H. unfold sql_lex. pose proof (lex_atoms l [] (S (length (atoms_text l)))) as Hl.
  rewrite app_nil_r in Hl. rewrite Hl; [|exact H|lia].
  assert (Hlen : length l <= length (atoms_text l)).
  { clear Hl. induction l as [|a r IH]; [cbn; lia|]. cbn [glue_atoms] in H. apply andb_prop in H as [H Hr]. apply andb_prop in H as [Hwf _].
    change (a :: r) with ([a] ++ r). rewrite atoms_text_app. cbn [atoms_text flat_map]. rewrite ?app_length, ?app_nil_r. fold (atoms_text r). pose proof (atom_nonempty a Hwf).
    specialize (IH Hr). cbn [length]. lia. }
  destruct (S (length (atoms_text l)) - length l) as [|k] eqn:E; [lia|]. cbn [sql_lex_fuel option_map]. rewrite app_nil_r. reflexivity.
Qed.

(** the pieces' own token view agrees with their atoms *)
Lemma glue_atoms_weaken l nx : glue_atoms l nx = true -> glue_atoms l None = true.
Proof.
  induction l as [|a r IH]; [reflexivity|]. cbn [glue_atoms]. intros H. apply andb_prop in H as [H Hr]. apply andb_prop in H as [Hwf Hfo].
  rewrite Hwf, (IH Hr). cbn [andb]. rewrite Bool.andb_true_r.
  destruct (atoms_text r) as [|y t]; cbn [first_of] in *; [|exact Hfo].
  unfold atom_follow. destruct (last_char (atom_text a)); reflexivity.
Qed.

Lemma ptok_atoms p l nx : piece_atoms p = Some l -> glue_atoms l nx = true ->
  match p with
  | PLit s => sql_lex ClickHouse s = Some (atoms_toks l)
  | PIdent n => atoms_toks l = [SQuoted n]
  | PStr v => atoms_toks l = [SString v]
  | PNum v => atoms_toks l = [SNumber v]
  | PFunc n => atoms_toks l = [SWord n]
  | _ => False
  end.
Proof.
  intros Ep Hg. destruct p; cbn [piece_atoms] in Ep; try discriminate; try (injection Ep as <-; reflexivity).
  pose proof (piece_atoms_text (PLit s) l Ep) as Ht. cbn [render_piece] in Ht. rewrite <- Ht.
  apply lex_glued. eapply glue_atoms_weaken. exact Hg.
Qed.

(** ** Theorem A: glued pieces lex, as bytes, into their atoms' tokens *)
Theorem glue_lexes ps : glue_ok ps = true ->
  exists l, pieces_atoms ps = Some l /\ sql_lex ClickHouse (render ps) = Some (atoms_toks l).
Proof.
  intros H. destruct (pieces_glue_atoms ps None H) as (l & El & Tl & Gl).
  exists l. split; [exact El|]. rewrite <- Tl. apply lex_glued. exact Gl.
Qed.

(** run by the correspondence harness on every program compiled without parameters *)
Definition show_glue (s : str) : str :=
  match compile [] s with
  | COk ps => if glue_ok ps then [79; 75]%N else [78; 79; 71; 76; 85; 69]%N
  | CParseErr _ | CErr _ => [69; 82; 82]%N
  | _ => [73; 78; 84; 69; 82; 78; 65; 76]%N
  end.
