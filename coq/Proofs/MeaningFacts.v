(** * C01 meaning: the SQL tree the writer intends evaluates, on every row, like the PQL tree. *)
From PQL Require Import Model.Trans Spec.PqlSem Proofs.ExprInd.
From Coq Require Import String Lia.
Local Open Scope list_scope.
Local Notation length := List.length (only parsing).

(** ** side conditions on the generated tables *)
Lemma builtin_idents_documented :
  builtin_idents = [(p_false, w_FALSE); (p_null, w_NULL); (p_true, w_TRUE)].
Proof. vm_compute. reflexivity. Qed.

Lemma binop_sql_documented :
  forallb (fun k =>
    match k, binop_sql k with
    | KAnd, Some s => str_eqb s w_AND
    | KOr, Some s => str_eqb s w_OR
    | (KPlus | KMinus | KStar | KSlash | KMod | KLT | KLE | KGT | KGE), Some s => str_eqb s (op_name k)
    | (KAnd | KOr | KPlus | KMinus | KStar | KSlash | KMod | KLT | KLE | KGT | KGE), None => false
    | _, Some _ => false
    | _, None => true
    end) all_kinds = true.
Proof. vm_compute. reflexivity. Qed.

Lemma known_funcs_documented :
  known_funcs =
  [(p_countf, (W_writeCountFunction, false)); (p_countif, (W_writeCountIfFunction, false));
   (p_iff, (W_writeIfFunction, true)); (p_iif, (W_writeIfFunction, true));
   (p_isnotnull, (W_writeIsNotNullFunction, true)); (p_isnull, (W_writeIsNullFunction, true));
   (p_not, (W_writeNotFunction, true)); (p_nowf, (W_writeNowFunction, false));
   (p_strcat, (W_writeStrcatFunction, true)); (p_tolower, (W_writeToLowerFunction, true));
   (p_toupper, (W_writeToUpperFunction, true))].
Proof. vm_compute. reflexivity. Qed.

Lemma existsb_ext_Forall {A} (f g : A -> bool) l : Forall (fun a => f a = g a) l -> existsb f l = existsb g l.
Proof. induction 1 as [|a r Ha Hr IH]; cbn [existsb]; [reflexivity|]. rewrite Ha, IH. reflexivity. Qed.

Lemma mentions_refers n e : mentions n e = refers n e.
Proof.
  induction e using expr_ind'; cbn [mentions refers];
    repeat match goal with H : mentions _ _ = refers _ _ |- _ => rewrite H; clear H end;
    try reflexivity;
    try (f_equal; apply existsb_ext_Forall; assumption);
    try (apply existsb_ext_Forall; assumption).
Qed.

Definition builtin_names : list str :=
  [p_countf; p_countif; p_iff; p_iif; p_isnotnull; p_isnull; p_not; p_nowf; p_strcat; p_tolower; p_toupper].

Lemma assoc_str_none {A} (t : list (str * A)) n : (forall k, In k (map fst t) -> str_eqb k n = false) -> assoc_str t n = None.
Proof.
  induction t as [|[k v] r IH]; intros H; cbn [assoc_str]; [reflexivity|].
  rewrite (H k (or_introl eq_refl)). apply IH. intros k' Hk'. apply H. right. exact Hk'.
Qed.

Lemma name_cases n : In n builtin_names \/ (forallb (fun k => negb (str_eqb n k)) builtin_names = true /\ known_func n = None).
Proof.
  destruct (existsb (str_eqb n) builtin_names) eqn:E.
  - left. apply existsb_exists in E as (k & Hk & Hn). apply str_eqb_eq in Hn. subst k. exact Hk.
  - right. assert (Hall : forall k, In k builtin_names -> str_eqb n k = false).
    { intros k Hk. destruct (str_eqb n k) eqn:Ek; [|reflexivity].
      assert (existsb (str_eqb n) builtin_names = true) by (apply existsb_exists; eauto). congruence. }
    split.
    + apply forallb_forall. intros k Hk. rewrite (Hall k Hk). reflexivity.
    + unfold known_func. apply assoc_str_none. rewrite known_funcs_documented. intros k Hk.
      rewrite str_eqb_sym. apply Hall. exact Hk.
Qed.

Section Meaning.
Variable F : fenv.
Variable is_bound : str -> bool.
Variable jm : bool.

(** the few function names whose meaning the semantics fixes must not be classified as aggregates
    or confused with pass-through names by the interpretation *)
Hypothesis coalesce_not_agg : is_agg F w_coalesce = false.
Hypothesis lower_not_agg : is_agg F w_lower = false /\ is_agg F w_LOWER = false /\ is_agg F w_UPPER = false.
Hypothesis count_is_agg : is_agg F w_count = true.
Hypothesis builtin_names_not_agg :
  forallb (fun n => negb (is_agg F n)) [p_not; p_isnull; p_isnotnull; p_iff; p_iif; p_strcat; p_tolower; p_toupper; p_nowf; p_countif] = true.

Lemma map_ext_Forall {A B} (f g : A -> B) l : Forall (fun a => f a = g a) l -> map f l = map g l.
Proof. induction 1; cbn [map]; congruence. Qed.

Lemma fold_concat_eq (vs : list value) (xs : list sexpr) e a x :
  seval F e x = a -> map (seval F e) xs = vs ->
  seval F e (fold_left (fun acc b => XBin w_concat acc b) xs x) = fold_left (fun acc b => fn F p_concat [acc; b]) vs a.
Proof.
  revert vs a x. induction xs as [|y r IH]; intros vs a x Hx Hm; cbn [map] in Hm; subst vs; cbn [fold_left]; [exact Hx|].
  apply IH; [|reflexivity]. cbn [seval]. rewrite Hx. reflexivity.
Qed.

Theorem trans_meaning : forall x e, seval F e (trans is_bound jm x) = peval F is_bound jm e x.
Proof.
  induction x using expr_ind'; intros e.
  - (* identifiers *)
    destruct ps as [|p [|p2 r]]; cbn [trans peval]; try reflexivity.
    destruct (negb (iquoted p) && is_bound (iname p)) eqn:Eb; [reflexivity|].
    destruct (negb (iquoted p)) eqn:Eq; cbn [andb]; [|reflexivity].
    rewrite builtin_idents_documented. cbn [assoc_str].
    destruct (str_eqb p_false (iname p)) eqn:E1.
    { apply str_eqb_eq in E1. rewrite <- E1. reflexivity. }
    destruct (str_eqb p_null (iname p)) eqn:E2.
    { apply str_eqb_eq in E2. rewrite <- E2. reflexivity. }
    destruct (str_eqb p_true (iname p)) eqn:E3.
    { apply str_eqb_eq in E3. rewrite <- E3. reflexivity. }
    apply str_eqb_neq in E1, E2, E3.
    assert (str_eqb (iname p) p_true = false) as -> by (apply str_eqb_neq; congruence).
    assert (str_eqb (iname p) p_false = false) as -> by (apply str_eqb_neq; congruence).
    assert (str_eqb (iname p) p_null = false) as -> by (apply str_eqb_neq; congruence).
    reflexivity.
  - (* binary *)
    cbn [trans peval]. rewrite <- IHx1, <- IHx2.
    destruct op; cbn [binop_sql seval]; try reflexivity.
    all: try (change w_left with p_left; change w_right with p_right).
    all: try (destruct (jm && _); cbn [seval]; [reflexivity|]).
    all: try rewrite coalesce_not_agg.
    all: try (destruct lower_not_agg as (-> & _)).
    all: cbn [seval map str_eqb N.eqb Pos.eqb andb w_eq w_ne w_AND w_OR w_coalesce w_FALSE w_TRUE w_NULL v_coalesce].
    all: try reflexivity.
    all: try (destruct (seval F e (trans is_bound jm x1)), (seval F e (trans is_bound jm x2)); cbn; try reflexivity;
              try (destruct (value_eqb _ _); reflexivity); try (destruct (Bool.eqb _ _); reflexivity);
              try (destruct (Z.eqb _ _); reflexivity); try (destruct (str_eqb _ _); reflexivity)).
  - (* unary *) cbn [trans peval seval]. rewrite IHx. destruct op; reflexivity.
  - (* in *) cbn [trans peval seval]. rewrite IHx, map_map. f_equal. apply map_ext_Forall.
    eapply Forall_impl; [|exact H]. intros a Ha. apply Ha.
  - (* parens *) cbn [trans peval]. apply IHx.
  - (* literals *) destruct k; reflexivity.
  - (* calls *)
    cbn [trans peval].
    assert (Hargs : forall e', map (seval F e') (map (trans is_bound jm) args) = map (peval F is_bound jm e') args).
    { intros e'. rewrite map_map. apply map_ext_Forall. eapply Forall_impl; [|exact H]. intros a Ha. apply Ha. }
    apply andb_prop in builtin_names_not_agg as [Hnot Hr].
    repeat match type of Hr with _ && _ = true => let Hx := fresh "Hn" in apply andb_prop in Hr as [Hx Hr] end.
    destruct lower_not_agg as (Hlow & HLOW & HUP).
    destruct f as [n sp q]. cbn [iname].
    destruct (name_cases n) as [Hin | [Hnone Hkf]].
    + (* a documented built-in *)
      cbn [In builtin_names] in Hin.
      repeat match type of Hin with _ \/ _ => destruct Hin as [Hin|Hin] end; try contradiction; subst n;
        match goal with |- context [known_func ?c] => let v := eval vm_compute in (known_func c) in change (known_func c) with v end;
        cbn beta iota; rewrite <- Hargs.
      * (* count *)
        cbn [str_eqb N.eqb Pos.eqb andb orb p_countf p_not p_isnull p_isnotnull p_iff p_iif p_strcat p_tolower p_toupper p_nowf seval].
        change w_count with p_countf in *. rewrite count_is_agg. reflexivity.
      * (* countif *)
        cbn [str_eqb N.eqb Pos.eqb andb orb p_countf p_countif p_not p_isnull p_isnotnull p_iff p_iif p_strcat p_tolower p_toupper p_nowf].
        destruct args as [|a [|b r]]; cbn [map]; try reflexivity.
        cbn [seval]. inversion H as [|? ? Ha _]; subst.
        assert (Hf : forall g, filter (fun r => is_true (seval F (mkEnv r (e_left e) (e_right e) [r]) (trans is_bound jm a))) g
                             = filter (fun r => is_true (peval F is_bound jm (mkEnv r (e_left e) (e_right e) [r]) a)) g).
        { induction g as [|g gs IHg]; cbn [filter]; [reflexivity|]. rewrite Ha, IHg. reflexivity. }
        rewrite Hf. reflexivity.
      * (* iff *)
        cbn [str_eqb N.eqb Pos.eqb andb orb p_not p_isnull p_isnotnull p_iff p_iif].
        destruct args as [|c [|t [|f' [|? ?]]]]; cbn [map]; try reflexivity.
        cbn [seval]. rewrite coalesce_not_agg. cbn [seval].
        inversion H as [|? ? Hc H']; subst. inversion H' as [|? ? Ht' H'']; subst. inversion H'' as [|? ? Hf' _]; subst.
        rewrite Hc, Ht', Hf'. destruct (peval F is_bound jm e c) as [| [] | |]; reflexivity.
      * (* iif *)
        cbn [str_eqb N.eqb Pos.eqb andb orb p_not p_isnull p_isnotnull p_iff p_iif].
        destruct args as [|c [|t [|f' [|? ?]]]]; cbn [map]; try reflexivity.
        cbn [seval]. rewrite coalesce_not_agg. cbn [seval].
        inversion H as [|? ? Hc H']; subst. inversion H' as [|? ? Ht' H'']; subst. inversion H'' as [|? ? Hf' _]; subst.
        rewrite Hc, Ht', Hf'. destruct (peval F is_bound jm e c) as [| [] | |]; reflexivity.
      * (* isnotnull *)
        cbn [str_eqb N.eqb Pos.eqb andb orb p_not p_isnull p_isnotnull].
        destruct (map (trans is_bound jm) args) as [|a [|? ?]]; cbn [map seval]; try reflexivity; try (destruct (seval F e a); reflexivity).
      * (* isnull *)
        cbn [str_eqb N.eqb Pos.eqb andb orb p_not p_isnull].
        destruct (map (trans is_bound jm) args) as [|a [|? ?]]; cbn [map seval]; try reflexivity; try (destruct (seval F e a); reflexivity).
      * (* not *)
        cbn [str_eqb N.eqb Pos.eqb andb orb p_not].
        destruct (map (trans is_bound jm) args) as [|a [|? ?]]; cbn [map seval]; reflexivity.
      * (* now *)
        cbn [str_eqb N.eqb Pos.eqb andb orb p_not p_isnull p_isnotnull p_iff p_iif p_strcat p_tolower p_toupper p_nowf seval].
        reflexivity.
      * (* strcat *)
        cbn [str_eqb N.eqb Pos.eqb andb orb p_not p_isnull p_isnotnull p_iff p_iif p_strcat].
        destruct (map (trans is_bound jm) args) as [|a r]; cbn [map seval]; [reflexivity|].
        apply fold_concat_eq; reflexivity.
      * (* tolower *)
        cbn [str_eqb N.eqb Pos.eqb andb orb p_not p_isnull p_isnotnull p_iff p_iif p_strcat p_tolower].
        destruct (map (trans is_bound jm) args) as [|a [|? ?]]; cbn [map seval]; try reflexivity.
        change p_LOWER with w_LOWER. rewrite HLOW.
        assert (str_eqb w_LOWER w_coalesce = false) as -> by (vm_compute; reflexivity). reflexivity.
      * (* toupper *)
        cbn [str_eqb N.eqb Pos.eqb andb orb p_not p_isnull p_isnotnull p_iff p_iif p_strcat p_tolower p_toupper].
        destruct (map (trans is_bound jm) args) as [|a [|? ?]]; cbn [map seval]; try reflexivity.
        change p_UPPER with w_UPPER. rewrite HUP.
        assert (str_eqb w_UPPER w_coalesce = false) as -> by (vm_compute; reflexivity). reflexivity.
    + (* passed through by name *)
      rewrite Hkf. cbn [forallb builtin_names] in Hnone.
      repeat match type of Hnone with _ && _ = true => let Hx := fresh "Hk" in apply andb_prop in Hnone as [Hx Hnone] end.
      repeat match goal with Hx : negb (str_eqb n _) = true |- _ => apply Bool.negb_true_iff in Hx; rewrite Hx end.
      cbn [orb seval].
      destruct (is_agg F n) eqn:Eagg.
      { f_equal. induction (e_group e) as [|g gs IHg]; cbn [map]; [reflexivity|]. rewrite IHg, Hargs. reflexivity. }
      change (L "coalesce") with w_coalesce.
      destruct (str_eqb n w_coalesce) eqn:Ecoal.
      { rewrite <- Hargs. destruct (map (trans is_bound jm) args) as [|a [|b [|? ?]]]; cbn [map]; reflexivity. }
      rewrite Hargs. reflexivity.
  - (* index *) cbn [trans peval seval]. rewrite IHx1, IHx2. reflexivity.
Qed.

End Meaning.
