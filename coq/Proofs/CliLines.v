(** * C16: from the bytes of a script to the lines the tool's loop sees.
    [events_of] models bufio.Scanner with ScanLines and its 64 KiB token limit.  When no line reaches
    the limit the events are the script's lines (a trailing CR removed from each), the lines cover
    the script byte for byte - nothing is dropped - and the run is the one-shot specification on
    that text; when a line does reach the limit the run reports failure. *)
From PQL Require Import Model.Cli Model.Show Spec.CliSpec Proofs.CliFacts Proofs.CliSpecFacts.
From Coq Require Import Lia.
Local Open Scope list_scope.
Local Open Scope nat_scope.
Local Notation length := List.length (only parsing).

Fixpoint split_lines (fuel : nat) (s : str) : list str :=
  match fuel with
  | O => []
  | S f =>
    match s with
    | [] => []
    | _ => let '(line, rest) := take_line s in
           line :: match rest with Some r => split_lines f r | None => [] end
    end
  end.

Lemma take_line_spec s : match take_line s with
                         | (a, Some r) => s = a ++ 10%N :: r
                         | (a, None) => s = a /\ forallb (fun c => negb (c =? 10)%N) a = true
                         end.
Proof.
  induction s as [|c r IH]; cbn [take_line]; [split; reflexivity|].
  destruct (c =? 10)%N eqn:E; [apply N.eqb_eq in E; subst; reflexivity|].
  destruct (take_line r) as [a [b|]]; cbn [app]; [rewrite IH; reflexivity|].
  destruct IH as [-> H]. split; [reflexivity|]. cbn [forallb]. rewrite E, H. reflexivity.
Qed.

Lemma take_line_length s a b : take_line s = (a, Some b) -> length b < length s.
Proof. intros H. pose proof (take_line_spec s) as S. rewrite H in S. subst s. rewrite app_length. cbn [length]. lia. Qed.

(** the lines cover the script: joined with newlines they give it back, plus one newline when
    the last line was not terminated *)
Theorem lines_cover_script : forall f s, length s < f ->
  exists tail, (tail = [] \/ tail = [10%N]) /\ text_of (split_lines f s) = s ++ tail.
Proof.
  induction f as [|f IH]; intros s Hf; [lia|]. destruct s as [|c r]; [exists []; split; [left|]; reflexivity|].
  cbn [split_lines]. pose proof (take_line_spec (c :: r)) as S. destruct (take_line (c :: r)) as [a [b|]] eqn:E.
  - destruct (IH b ltac:(pose proof (take_line_length _ _ _ E); cbn [length] in *; lia)) as (tail & Ht & Hx).
    exists tail. split; [exact Ht|]. unfold text_of in *. cbn [map concat]. rewrite Hx, S, <- !app_assoc. reflexivity.
  - destruct S as [-> _]. exists [10%N]. split; [right; reflexivity|]. unfold text_of. cbn [map concat]. rewrite app_nil_r. reflexivity.
Qed.

Definition short (l : str) : bool := negb (65536 <=? N.of_nat (length l))%N.

Lemma events_short : forall f s, forallb short (split_lines f s) = true ->
  events_of f s = map Line (map strip_cr (split_lines f s)).
Proof.
  induction f as [|f IH]; intros s H; [reflexivity|]. destruct s as [|c r]; [reflexivity|].
  cbn [events_of split_lines] in *. destruct (take_line (c :: r)) as [a b]. cbn [forallb] in H. apply andb_prop in H as [Ha Hr].
  unfold short in Ha. destruct (65536 <=? N.of_nat (length a))%N; [discriminate|]. cbn [map]. f_equal.
  destruct b as [b|]; [apply IH; exact Hr|reflexivity].
Qed.

Lemma events_long : forall f s, forallb short (split_lines f s) = false -> In ReadError (events_of f s).
Proof.
  induction f as [|f IH]; intros s H; [discriminate|]. destruct s as [|c r]; [discriminate|].
  cbn [events_of split_lines] in *. destruct (take_line (c :: r)) as [a b]. cbn [forallb] in H.
  unfold short in H at 1. destruct (65536 <=? N.of_nat (length a))%N; [left; reflexivity|]. cbn [negb andb] in H.
  right. destruct b as [b|]; [apply IH; exact H|discriminate].
Qed.

(** no line reaches the limit: the run is the one-shot specification on the script's own text
    (each line without its trailing CR) *)
Theorem script_is_expected s : forallb short (split_lines (S (length s)) s) = true ->
  run (events_of (S (length s)) s) = expected (text_of (map strip_cr (split_lines (S (length s)) s))).
Proof. intros H. rewrite (events_short _ _ H). apply run_is_expected. Qed.

(** a line reaches the limit: the run fails (non-zero exit status) *)
Theorem long_line_fails s : forallb short (split_lines (S (length s)) s) = false ->
  o_fail (run (events_of (S (length s)) s)) = true.
Proof. intros H. unfold run. apply read_error_fails. apply events_long. exact H. Qed.

(** without carriage returns the text compiled is the script itself (plus a final newline if missing) *)
Lemma strip_cr_id l : forallb (fun c => negb (c =? 13)%N) l = true -> strip_cr l = l.
Proof.
  induction l as [|c r IH]; [reflexivity|]. cbn [forallb]. intros H. apply andb_prop in H as [Hc Hr].
  cbn [strip_cr]. destruct r as [|d r']; [destruct (c =? 13)%N; [discriminate|reflexivity]|]. rewrite (IH Hr). reflexivity.
Qed.

Lemma split_lines_no_cr : forall f s, forallb (fun c => negb (c =? 13)%N) s = true ->
  Forall (fun l => forallb (fun c => negb (c =? 13)%N) l = true) (split_lines f s).
Proof.
  induction f as [|f IH]; intros s H; [constructor|]. destruct s as [|c r]; [constructor|]. cbn [split_lines].
  pose proof (take_line_spec (c :: r)) as S. destruct (take_line (c :: r)) as [a [b|]].
  - rewrite S, forallb_app in H. apply andb_prop in H as [Ha Hb]. cbn [forallb] in Hb. apply andb_prop in Hb as [_ Hb].
    constructor; [exact Ha|apply IH; exact Hb].
  - destruct S as [<- _]. constructor; [exact H|constructor].
Qed.

Lemma map_strip_cr_id ls : Forall (fun l => forallb (fun c => negb (c =? 13)%N) l = true) ls -> map strip_cr ls = ls.
Proof. induction 1 as [|l r Hl Hr IH]; [reflexivity|]. cbn [map]. rewrite (strip_cr_id l Hl), IH. reflexivity. Qed.

Theorem script_without_cr s : forallb (fun c => negb (c =? 13)%N) s = true -> forallb short (split_lines (S (length s)) s) = true ->
  exists tail, (tail = [] \/ tail = [10%N]) /\ run (events_of (S (length s)) s) = expected (s ++ tail).
Proof.
  intros Hcr Hs. destruct (lines_cover_script (S (length s)) s (Nat.lt_succ_diag_r _)) as (tail & Ht & Hx).
  exists tail. split; [exact Ht|]. rewrite (script_is_expected s Hs).
  rewrite (map_strip_cr_id _ (split_lines_no_cr (S (length s)) s Hcr)), Hx. reflexivity.
Qed.

(** ** a query at the end of the input, with or without a semicolon after it *)
From PQL Require Import Proofs.SplitFacts.

(** compiling the last piece as an unterminated query is the same as handling it as a terminated
    statement and finding nothing after it *)
Theorem last_query_either_way st p : is_let_piece p = false -> scan p <> [] ->
  finish (set_pending st p) false = finish (set_pending (do_piece st p) []) false.
Proof.
  intros Hl Hs. unfold finish, set_pending, do_piece. cbn [pending prelude out failed nlogged]. rewrite Hl.
  destruct (scan p) as [|t r] eqn:E; [congruence|].
  destruct (compile_ok (prelude st ++ p)) as [sql|]; cbn [pending prelude out failed nlogged]; reflexivity.
Qed.

Lemma removelast_snoc {A} (l : list A) x : removelast (l ++ [x]) = l.
Proof. apply removelast_last. Qed.

(** on scripts: when the appended semicolon is a token of its own (it is not swallowed by an
    unterminated comment, string or quoted name), a final query gives the same output and the same
    exit status with and without it *)
Theorem trailing_semicolon s :
  split_statements (s ++ [59%N]) = split_statements s ++ [[]] ->
  is_let_piece (last (split_statements s) []) = false -> scan (last (split_statements s) []) <> [] ->
  expected (s ++ [59%N]) = expected s.
Proof.
  intros Hsp Hl Hs. unfold expected, state_of_text. rewrite Hsp, removelast_snoc, last_last.
  pose proof (split_at_semis_nonempty s 0 (scan s)) as Hne. fold (split_statements s) in Hne.
  rewrite (app_removelast_last [] Hne) at 1. rewrite fold_left_app. cbn [fold_left].
  symmetry. apply last_query_either_way; assumption.
Qed.
