(** * Quoting round trips: what quoteIdentifier / quoteSQLString emit is read back by the
    SQL lexer as exactly one token carrying the original bytes. *)
From PQL Require Import Model.Compile Spec.SqlLex.
From Coq Require Import Lia.
Local Open Scope list_scope.

Definition esc (q : N) (b : N) : str := if (b =? q)%N then [q; q] else if (b =? 92)%N then [92; 92]%N else [b].

Lemma quote_with_eq q s : quote_with q s = q :: flat_map (esc q) s ++ [q].
Proof. reflexivity. Qed.

(** in ClickHouse mode the body decodes to the original bytes *)
Lemma quoted_tail_clickhouse q s : q <> 92%N -> forall rest,
  (match rest with c :: _ => (c =? q)%N = false | [] => True end) ->
  quoted_tail ClickHouse q (flat_map (esc q) s ++ q :: rest) = Some (s, rest).
Proof.
  intros Hq. induction s as [|b s IH]; intros rest Hrest; cbn [flat_map app].
  - cbn [quoted_tail]. rewrite N.eqb_refl. destruct rest as [|c r]; [reflexivity|]. rewrite Hrest. reflexivity.
  - unfold esc at 1. destruct (b =? q)%N eqn:Ebq.
    + apply N.eqb_eq in Ebq. subst b. cbn [app quoted_tail]. rewrite !N.eqb_refl.
      rewrite (IH rest Hrest). reflexivity.
    + destruct (b =? 92)%N eqn:Eb.
      * apply N.eqb_eq in Eb. subst b. cbn [app quoted_tail].
        assert ((92 =? q)%N = false) as -> by (apply N.eqb_neq; congruence).
        cbn [andb]. rewrite N.eqb_refl. cbn [andb]. rewrite (IH rest Hrest). reflexivity.
      * cbn [app quoted_tail]. rewrite Ebq, Eb. cbn [andb]. rewrite (IH rest Hrest). reflexivity.
Qed.

(** in Standard mode the token boundaries are the same; the content keeps its doubled backslashes *)
Definition std_view (s : str) : str := flat_map (fun b => if (b =? 92)%N then [92; 92]%N else [b]) s.

Lemma quoted_tail_standard q s : q <> 92%N -> forall rest,
  (match rest with c :: _ => (c =? q)%N = false | [] => True end) ->
  quoted_tail Standard q (flat_map (esc q) s ++ q :: rest) = Some (std_view s, rest).
Proof.
  intros Hq. induction s as [|b s IH]; intros rest Hrest; cbn [flat_map app].
  - cbn [quoted_tail]. rewrite N.eqb_refl. destruct rest as [|c r]; [reflexivity|]. rewrite Hrest. reflexivity.
  - unfold esc at 1. unfold std_view. cbn [flat_map]. fold (std_view s). destruct (b =? q)%N eqn:Ebq.
    + apply N.eqb_eq in Ebq. subst b. cbn [app quoted_tail]. rewrite !N.eqb_refl.
      rewrite (IH rest Hrest).
      assert ((q =? 92)%N = false) as -> by (apply N.eqb_neq; congruence). reflexivity.
    + destruct (b =? 92)%N eqn:Eb.
      * apply N.eqb_eq in Eb. subst b. cbn [app quoted_tail].
        assert ((92 =? q)%N = false) as -> by (apply N.eqb_neq; congruence).
        cbn [andb]. rewrite (IH rest Hrest). reflexivity.
      * cbn [app quoted_tail]. rewrite Ebq, Eb. cbn [andb]. rewrite (IH rest Hrest). reflexivity.
Qed.

Lemma app_cons_assoc {A} (a : list A) x b : a ++ x :: b = (a ++ [x]) ++ b.
Proof. rewrite <- app_assoc. reflexivity. Qed.

Lemma lex_one_quoted m q s v (f : nat) : (q = 34 \/ q = 39)%N ->
  quoted_tail m q (flat_map (esc q) s ++ [q]) = Some (v, []) ->
  sql_lex_fuel (S (S f)) m (q :: flat_map (esc q) s ++ [q]) = Some [if (q =? 34)%N then SQuoted v else SString v].
Proof.
  intros Hq Ht. cbn [sql_lex_fuel].
  destruct Hq as [-> | ->]; cbn [is_sql_space N.eqb Pos.eqb orb andb]; rewrite Ht; reflexivity.
Qed.

Theorem lex_quote_ident_clickhouse s : sql_lex ClickHouse (quote_ident s) = Some [SQuoted s].
Proof.
  unfold sql_lex, quote_ident. rewrite quote_with_eq. cbn [length].
  apply (lex_one_quoted ClickHouse 34 s s); [auto|].
  apply (quoted_tail_clickhouse 34 s); [congruence|exact I].
Qed.

Theorem lex_quote_string_clickhouse s : sql_lex ClickHouse (quote_sql_string s) = Some [SString s].
Proof.
  unfold sql_lex, quote_sql_string. rewrite quote_with_eq. cbn [length].
  apply (lex_one_quoted ClickHouse 39 s s); [auto|].
  apply (quoted_tail_clickhouse 39 s); [congruence|exact I].
Qed.

Theorem lex_quote_ident_standard s : sql_lex Standard (quote_ident s) = Some [SQuoted (std_view s)].
Proof.
  unfold sql_lex, quote_ident. rewrite quote_with_eq. cbn [length].
  apply (lex_one_quoted Standard 34 s (std_view s)); [auto|].
  apply (quoted_tail_standard 34 s); [congruence|exact I].
Qed.

Theorem lex_quote_string_standard s : sql_lex Standard (quote_sql_string s) = Some [SString (std_view s)].
Proof.
  unfold sql_lex, quote_sql_string. rewrite quote_with_eq. cbn [length].
  apply (lex_one_quoted Standard 39 s (std_view s)); [auto|].
  apply (quoted_tail_standard 39 s); [congruence|exact I].
Qed.
