(** * Decimal printing is injective (generated subquery names are pairwise different). *)
From PQL Require Import Model.Compile.
From Coq Require Import Lia ZifyBool ZifyN ZifyNat String.
Local Open Scope list_scope.
Local Open Scope N_scope.
Local Notation length := List.length (only parsing).

Definition dval (ds : str) : N := fold_left (fun acc c => acc * 10 + (c - 48)) ds 0.

Lemma fold_dval l : forall a, fold_left (fun acc c => acc * 10 + (c - 48)) l a = a * 10 ^ N.of_nat (length l) + dval l.
Proof.
  induction l as [|c r IH]; intros a.
  - unfold dval. cbn [fold_left length]. change (N.of_nat 0) with 0. rewrite N.pow_0_r. lia.
  - cbn [fold_left length]. rewrite IH.
    change (dval (c :: r)) with (fold_left (fun acc c0 => acc * 10 + (c0 - 48)) r (0 * 10 + (c - 48))).
    rewrite (IH (0 * 10 + (c - 48))). rewrite Nat2N.inj_succ, N.pow_succ_r' by lia. lia.
Qed.

Lemma dval_cons c l : dval (c :: l) = (c - 48) * 10 ^ N.of_nat (length l) + dval l.
Proof. unfold dval at 1. cbn [fold_left]. rewrite fold_dval. lia. Qed.

Lemma dec_digits_value fuel : forall n acc, n < 2 ^ N.of_nat fuel ->
  dval (dec_digits fuel n acc) = n * 10 ^ N.of_nat (length acc) + dval acc.
Proof.
  induction fuel as [|f IH]; intros n acc Hn.
  - cbn in Hn. assert (n = 0) by lia. subst. cbn [dec_digits]. lia.
  - cbn [dec_digits]. destruct (n / 10 =? 0) eqn:E.
    + apply N.eqb_eq in E. rewrite dval_cons.
      assert (Hm : n mod 10 = n). { pose proof (N.div_mod n 10). lia. }
      replace (48 + n mod 10 - 48) with (n mod 10) by lia. rewrite Hm. reflexivity.
    + rewrite IH.
      * rewrite dval_cons. cbn [length]. rewrite Nat2N.inj_succ, N.pow_succ_r'.
        replace (48 + n mod 10 - 48) with (n mod 10) by lia.
        pose proof (N.div_mod n 10 ltac:(lia)) as Hd.
        set (p := 10 ^ N.of_nat (length acc)) in *. nia.
      * rewrite Nat2N.inj_succ, N.pow_succ_r' in Hn.
        assert (n / 10 <= n / 2) by (apply N.div_le_compat_l; lia).
        assert (n / 2 < 2 ^ N.of_nat f) by (apply N.div_lt_upper_bound; lia). lia.
Qed.

Theorem N_to_dec_value n : dval (N_to_dec n) = n.
Proof.
  unfold N_to_dec. rewrite dec_digits_value.
  - cbn. lia.
  - rewrite Nat2N.inj_succ, N2Nat.id.
    destruct n as [|p]; [cbn; lia|]. apply N.log2_spec. lia.
Qed.

Theorem nat_to_dec_inj i j : nat_to_dec i = nat_to_dec j -> i = j.
Proof.
  unfold nat_to_dec. intros H. apply (f_equal dval) in H. rewrite !N_to_dec_value in H. lia.
Qed.

Theorem subquery_name_inj i j : subquery_name i = subquery_name j -> i = j.
Proof. unfold subquery_name. intros H. apply app_inv_head in H. apply nat_to_dec_inj. exact H. Qed.

(** names of the generated shape *)
Fixpoint prefix_eqb (p s : str) : bool :=
  match p, s with
  | [], _ => true
  | x :: p', y :: s' => (x =? y) && prefix_eqb p' s'
  | _, [] => false
  end.
Definition gen_shape (n : str) : bool := prefix_eqb (L "__subquery") n.

Lemma prefix_eqb_app p s : prefix_eqb p (p ++ s) = true.
Proof. induction p as [|c r IH]; cbn; [reflexivity|]. rewrite N.eqb_refl. exact IH. Qed.

Lemma subquery_name_gen i : gen_shape (subquery_name i) = true.
Proof. apply prefix_eqb_app. Qed.
