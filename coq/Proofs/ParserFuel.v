(** * C12: the parser's fuel is sufficient -- [parse] never reports running out of fuel.
    The model's recursive descent runs on fuel (one unit per call level); this file shows that
    the call depth is bounded linearly in the number of tokens, so the fuel [parse] starts with
    is never exhausted. *)
From PQL Require Import Model.Parser Proofs.ParserFacts Proofs.ParserSound Proofs.ParserSoundStmt.
From Coq Require Import Lia ZArith.
Local Open Scope list_scope.
Local Open Scope nat_scope.

Definition nofuel (e : errs) : Prop := existsb efuel e = false.

Lemma nofuel_nil : nofuel []. Proof. reflexivity. Qed.
Lemma nofuel_app a b : nofuel a -> nofuel b -> nofuel (a ++ b).
Proof. unfold nofuel. rewrite existsb_app. intros -> ->. reflexivity. Qed.
Lemma nofuel_opaque e : nofuel e -> nofuel (opaque e).
Proof. unfold nofuel, opaque. induction e as [|x r IH]; [auto|]. cbn. destruct (efuel x); [discriminate|]. exact IH. Qed.
Lemma nofuel_err_at p : nofuel (err_at p). Proof. reflexivity. Qed.
Lemma nofuel_nf_at p : nofuel (nf_at p). Proof. reflexivity. Qed.
Lemma nofuel_nopos : nofuel err_nopos. Proof. reflexivity. Qed.
Lemma nofuel_end_split ts : nofuel (end_split ts). Proof. destruct ts; reflexivity. Qed.
Lemma nofuel_app_inv a b : nofuel (a ++ b) -> nofuel a /\ nofuel b.
Proof. unfold nofuel. rewrite existsb_app. intros H. apply Bool.orb_false_iff in H. exact H. Qed.

Global Hint Resolve nofuel_nil nofuel_app nofuel_opaque nofuel_err_at nofuel_nf_at nofuel_nopos nofuel_end_split : nofuel.

Lemma split_lengths k ts : length (fst (split k ts)) + length (snd (split k ts)) = length ts.
Proof. rewrite <- app_length, split_partition. reflexivity. Qed.

Section Len.
Variable srclen : nat.

(** ** what is left is never longer than what was given *)
Definition LenOK {A} (p : list token -> option A * list token * errs) : Prop :=
  forall ts x rest e, p ts = (x, rest, e) -> length rest <= length ts.

Lemma p_ident_len : LenOK (p_ident srclen).
Proof.
  intros ts x rest e. unfold p_ident. destruct ts as [|t r]; [intros [= <- <- <-]; cbn; lia|].
  destruct (_ || _); intros [= <- <- <-]; cbn; lia.
Qed.

Lemma p_qual_tail_len : forall n ts ps rest e, length ts <= n -> p_qual_tail srclen ts = (ps, rest, e) -> length rest <= length ts.
Proof.
  induction n as [|n IH]; intros ts ps rest e Hn.
  - destruct ts; [|cbn in Hn; lia]. cbn. intros [= <- <- <-]. cbn. lia.
  - destruct ts as [|d r]; cbn [p_qual_tail]; [intros [= <- <- <-]; cbn; lia|].
    destruct (is_kind KDot d); [|intros [= <- <- <-]; lia].
    destruct r as [|t r']; [intros [= <- <- <-]; cbn; lia|].
    destruct (_ || _); [|intros [= <- <- <-]; cbn; lia].
    destruct (p_qual_tail srclen r') as [[a b] c] eqn:E. intros [= <- <- <-].
    pose proof (IH r' _ _ _ ltac:(cbn in Hn; lia) E). cbn. lia.
Qed.

Lemma p_qualified_len : LenOK (p_qualified srclen).
Proof.
  intros ts x rest e. unfold p_qualified. destruct (p_ident srclen ts) as [[[i|] r] ei] eqn:Ei.
  - pose proof (p_ident_len _ _ _ _ Ei) as H1.
    destruct (p_qual_tail srclen r) as [[ps rest'] e'] eqn:Et. intros [= <- <- <-].
    pose proof (p_qual_tail_len (length r) r _ _ _ (le_n _) Et). lia.
  - intros [= <- <- <-]. exact (p_ident_len _ _ _ _ Ei).
Qed.

Definition Len8 (f : nat) : Prop :=
  LenOK (p_expr srclen f) /\ LenOK (p_unary srclen f) /\ LenOK (p_primary srclen f) /\ LenOK (p_inner srclen f)
  /\ LenOK (p_expr_list srclen f) /\ LenOK (p_expr_list_tail srclen f)
  /\ (forall x minp, LenOK (p_trail srclen f x minp)) /\ (forall y prec1, LenOK (p_higher srclen f y prec1)).

Ltac len_done := intros [= <- <- <-]; cbn [length] in *; lia.

Lemma len8_all f : Len8 f.
Proof.
  induction f as [|f (He & Hu & Hp & Hi & Hl & Ht & Htr & Hh)].
  { unfold Len8, LenOK. cbn [p_expr p_unary p_primary p_inner p_expr_list p_expr_list_tail p_trail p_higher].
    repeat split; intros; match goal with H : (_, _, _) = (_, _, _) |- _ => injection H as <- <- <- end; lia. }
  unfold Len8. repeat split.
  - intros ts x rest e. rewrite p_expr_S. destruct (p_unary srclen f ts) as [[x0 r1] e1] eqn:Eu. pose proof (Hu _ _ _ _ Eu).
    destruct (is_nf e1); [len_done|]. destruct (p_trail srclen f x0 0%Z r1) as [[x' r2] e2] eqn:Et. pose proof (Htr _ _ _ _ _ _ Et). len_done.
  - intros ts x rest e. rewrite p_unary_S. destruct ts as [|t r]; [len_done|].
    destruct (_ || _); [|apply Hp]. destruct (p_primary srclen f r) as [[x0 r1] e0] eqn:Ep. pose proof (Hp _ _ _ _ Ep). len_done.
  - intros ts x rest e. rewrite p_primary_S. destruct (p_inner srclen f ts) as [[x0 r1] e0] eqn:Ei. pose proof (Hi _ _ _ _ Ei).
    destruct (negb (no_err e0)); [len_done|]. destruct r1 as [|t r2]; [len_done|].
    destruct (is_kind KLBracket t); [|len_done].
    pose proof (split_lengths KRBracket r2). destruct (split KRBracket r2) as [sub rest0]. cbn [fst snd] in *.
    destruct (p_expr srclen f sub) as [[i subrest] ei]. destruct rest0 as [|c rest']; [len_done|].
    destruct (is_kind KRBracket c); len_done.
  - intros ts x rest e. rewrite p_inner_S. destruct ts as [|t r]; [len_done|].
    destruct (_ || _); [len_done|].
    assert (Hq : forall (ps : option (list ident)) r1 (e0 : errs), length r1 <= length (t :: r) -> (option_map EQual ps, r1, e0) = (x, rest, e) -> length rest <= length (t :: r)).
    { intros ps r1 e0 Hpq [= <- <- <-]. exact Hpq. }
    destruct (is_kind KIdentifier t).
    { destruct (p_qualified srclen (t :: r)) as [[ps r1] e0] eqn:Epq. pose proof (p_qualified_len _ _ _ _ Epq) as Hlen.
      destruct ps as [[|i [|j l]]|]; try (apply Hq; exact Hlen).
      destruct r1 as [|lp r2]; [len_done|]. destruct (is_kind KLParen lp); [|len_done].
      pose proof (split_lengths KRParen r2). destruct (split KRParen r2) as [sub rest0]. cbn [fst snd] in *.
      destruct (p_expr_list srclen f sub) as [[args subrest] ea].
      destruct (is_nf ea); [destruct rest0 as [|c rest']; [len_done|destruct (is_kind KRParen c); len_done]|].
      destruct (no_err ea); [|destruct rest0 as [|c rest']; [len_done|destruct (is_kind KRParen c); len_done]].
      destruct subrest as [|c0 sr]; [destruct rest0 as [|c rest']; [len_done|destruct (is_kind KRParen c); len_done]|].
      destruct (is_kind KComma c0); destruct rest0 as [|c rest']; try len_done; destruct (is_kind KRParen c); len_done. }
    destruct (is_kind KQuotedIdentifier t).
    { destruct (p_qualified srclen (t :: r)) as [[ps r1] e0] eqn:Epq. apply Hq. exact (p_qualified_len _ _ _ _ Epq). }
    destruct (is_kind KLParen t); [|len_done].
    pose proof (split_lengths KRParen r). destruct (split KRParen r) as [sub rest0]. cbn [fst snd] in *.
    destruct (p_expr srclen f sub) as [[x0 subrest] ex]. destruct rest0 as [|c rest']; [len_done|].
    destruct (is_kind KRParen c); len_done.
  - intros ts x rest e. rewrite p_expr_list_S. destruct (p_expr srclen f ts) as [[x0 r1] e1] eqn:Ee. pose proof (He _ _ _ _ Ee).
    destruct (negb (no_err e1)); [len_done|]. destruct (p_expr_list_tail srclen f r1) as [[xs r2] e2] eqn:Et. pose proof (Ht _ _ _ _ Et). len_done.
  - intros ts x rest e. rewrite p_expr_list_tail_S. destruct ts as [|c r]; [len_done|].
    destruct (is_kind KComma c); [|len_done]. destruct (p_expr srclen f r) as [[x0 r1] e1] eqn:Ee. pose proof (He _ _ _ _ Ee).
    destruct (is_nf e1); [len_done|]. destruct (negb (no_err e1)); [len_done|].
    destruct (p_expr_list_tail srclen f r1) as [[xs r2] e2] eqn:Et. pose proof (Ht _ _ _ _ Et). len_done.
  - intros x0 minp ts x rest e. rewrite p_trail_S. cbv zeta. destruct ts as [|op1 r]; [len_done|].
    destruct (_ || _); [len_done|]. destruct (is_kind KIn op1).
    + destruct r as [|lp r1]; [len_done|]. destruct (is_kind KLParen lp); [|len_done].
      pose proof (split_lengths KRParen r1). destruct (split KRParen r1) as [sub rest0]. cbn [fst snd] in *.
      destruct (p_expr_list srclen f sub) as [[vals subrest] ev]. destruct rest0 as [|c rest']; [len_done|].
      destruct (is_kind KRParen c); [|len_done].
      destruct (p_trail srclen f _ minp rest') as [[x'' r2] e2] eqn:Et. pose proof (Htr _ _ _ _ _ _ Et). len_done.
    + destruct (p_unary srclen f r) as [[y r1] ey] eqn:Eu. pose proof (Hu _ _ _ _ Eu).
      destruct (p_higher srclen f y (op_prec (tkind op1)) r1) as [[y' r2] e2] eqn:Eh. pose proof (Hh _ _ _ _ _ _ Eh).
      destruct (p_trail srclen f _ minp r2) as [[x'' r3] e3] eqn:Et. pose proof (Htr _ _ _ _ _ _ Et). len_done.
  - intros y0 prec1 ts x rest e. rewrite p_higher_S. cbv zeta. destruct ts as [|op2 r]; [len_done|].
    destruct (_ || _); [len_done|].
    destruct (p_trail srclen f y0 (prec1 + 1)%Z (op2 :: r)) as [[y' r1] e1] eqn:Et. pose proof (Htr _ _ _ _ _ _ Et).
    destruct (p_higher srclen f y' prec1 r1) as [[y'' r2] e2] eqn:Eh. pose proof (Hh _ _ _ _ _ _ Eh). len_done.
Qed.
End Len.

(** ** fuel sufficiency for expressions *)
Section Fuel.
Variable srclen : nat.

Definition need_inner (n : nat) := 4 * n + 1.
Definition need_primary (n : nat) := 4 * n + 2.
Definition need_unary (n : nat) := 4 * n + 3.
Definition need_expr (n : nat) := 4 * n + 4.
Definition need_trail (n : nat) := 4 * n + 3.
Definition need_higher (n : nat) := 4 * n + 4.
Definition need_list (n : nat) := 4 * n + 5.
Definition need_tail (n : nat) := 4 * n + 1.

Definition FuelOK {A} (need : nat -> nat) (f : nat) (p : list token -> option A * list token * errs) : Prop :=
  forall ts x rest e, need (length ts) <= f -> p ts = (x, rest, e) -> nofuel e.

Definition Fuel8 (f : nat) : Prop :=
  FuelOK need_expr f (p_expr srclen f) /\ FuelOK need_unary f (p_unary srclen f) /\ FuelOK need_primary f (p_primary srclen f)
  /\ FuelOK need_inner f (p_inner srclen f) /\ FuelOK need_list f (p_expr_list srclen f) /\ FuelOK need_tail f (p_expr_list_tail srclen f)
  /\ (forall x minp, FuelOK need_trail f (p_trail srclen f x minp)) /\ (forall y prec1, FuelOK need_higher f (p_higher srclen f y prec1)).

Lemma p_qual_tail_nofuel : forall n ts ps rest e, length ts <= n -> p_qual_tail srclen ts = (ps, rest, e) -> nofuel e.
Proof.
  induction n as [|n IH]; intros ts ps rest e Hn.
  - destruct ts; [|cbn in Hn; lia]. cbn. intros [= <- <- <-]. reflexivity.
  - destruct ts as [|d r]; cbn [p_qual_tail]; [intros [= <- <- <-]; reflexivity|].
    destruct (is_kind KDot d); [|intros [= <- <- <-]; reflexivity].
    destruct r as [|t r']; [intros [= <- <- <-]; reflexivity|].
    destruct (_ || _); [|intros [= <- <- <-]; reflexivity].
    destruct (p_qual_tail srclen r') as [[a b] c] eqn:E. intros [= <- <- <-]. eapply (IH r'); [cbn in Hn; lia|exact E].
Qed.

Lemma p_ident_nofuel ts x rest e : p_ident srclen ts = (x, rest, e) -> nofuel e.
Proof. unfold p_ident. destruct ts as [|t r]; [intros [= <- <- <-]; reflexivity|]. destruct (_ || _); intros [= <- <- <-]; reflexivity. Qed.

Lemma p_qualified_nofuel ts x rest e : p_qualified srclen ts = (x, rest, e) -> nofuel e.
Proof.
  unfold p_qualified. destruct (p_ident srclen ts) as [[[i|] r] ei] eqn:Ei.
  - destruct (p_qual_tail srclen r) as [[ps rest'] e'] eqn:Et. intros [= <- <- <-]. eapply p_qual_tail_nofuel; [apply le_n|exact Et].
  - intros [= <- <- <-]. eapply p_ident_nofuel; exact Ei.
Qed.

Ltac nf_done := intros [= <- <- <-]; auto 10 with nofuel.
Ltac len_done := intros [= <- <- <-]; cbn [length] in *; lia.

(** when the next operator passes the threshold, the trail consumes it *)
Lemma p_trail_consumes f x minp op1 r x' rest e :
  ((op_prec (tkind op1) <? 0)%Z || (op_prec (tkind op1) <? minp)%Z) = false ->
  p_trail srclen (S f) x minp (op1 :: r) = (x', rest, e) -> length rest <= length r.
Proof.
  intros Hth. rewrite p_trail_S. cbv zeta. rewrite Hth.
  destruct (len8_all srclen f) as (He & Hu & Hp & Hi & Hl & Ht & Htr & Hh).
  destruct (is_kind KIn op1).
  - destruct r as [|lp r1]; [len_done|]. destruct (is_kind KLParen lp); [|len_done].
    pose proof (split_lengths KRParen r1). destruct (split KRParen r1) as [sub rest0]. cbn [fst snd] in *.
    destruct (p_expr_list srclen f sub) as [[vals subrest] ev]. destruct rest0 as [|c rest']; [len_done|].
    destruct (is_kind KRParen c); [|len_done].
    destruct (p_trail srclen f _ minp rest') as [[x'' r2] e2] eqn:Et. pose proof (Htr _ _ _ _ _ _ Et). len_done.
  - destruct (p_unary srclen f r) as [[y r1] ey] eqn:Eu. pose proof (Hu _ _ _ _ Eu).
    destruct (p_higher srclen f y (op_prec (tkind op1)) r1) as [[y' r2] e2] eqn:Eh. pose proof (Hh _ _ _ _ _ _ Eh).
    destruct (p_trail srclen f _ minp r2) as [[x'' r3] e3] eqn:Et. pose proof (Htr _ _ _ _ _ _ Et). len_done.
Qed.

Lemma fuel8_all f : Fuel8 f.
Proof.
  induction f as [|f (He & Hu & Hp & Hi & Hl & Ht & Htr & Hh)].
  { unfold Fuel8, FuelOK, need_expr, need_unary, need_primary, need_inner, need_list, need_tail, need_trail, need_higher. repeat split; intros; lia. }
  destruct (len8_all srclen f) as (Le & Lu & Lp & Li & Ll & Lt & Ltr & Lh).
  unfold Fuel8. repeat split.
  - (* expr *) intros ts x rest e Hf. unfold need_expr in Hf. rewrite p_expr_S.
    destruct (p_unary srclen f ts) as [[x0 r1] e1] eqn:Eu. pose proof (Lu _ _ _ _ Eu).
    assert (N1 : nofuel e1) by (eapply Hu; [|exact Eu]; unfold need_unary; lia).
    destruct (is_nf e1); [intros [= <- <- <-]; exact N1|].
    destruct (p_trail srclen f x0 0%Z r1) as [[x' r2] e2] eqn:Et.
    assert (N2 : nofuel e2) by (eapply Htr; [|exact Et]; unfold need_trail; lia). nf_done.
  - (* unary *) intros ts x rest e Hf. unfold need_unary in Hf. rewrite p_unary_S. destruct ts as [|t r]; [nf_done|].
    destruct (_ || _).
    + destruct (p_primary srclen f r) as [[x0 r1] e0] eqn:Ep.
      assert (N1 : nofuel e0) by (eapply Hp; [|exact Ep]; unfold need_primary; cbn [length] in *; lia). nf_done.
    + intros H. eapply Hp; [|exact H]. unfold need_primary. lia.
  - (* primary *) intros ts x rest e Hf. unfold need_primary in Hf. rewrite p_primary_S.
    destruct (p_inner srclen f ts) as [[x0 r1] e0] eqn:Ei. pose proof (Li _ _ _ _ Ei).
    assert (N1 : nofuel e0) by (eapply Hi; [|exact Ei]; unfold need_inner; lia).
    destruct (negb (no_err e0)); [intros [= <- <- <-]; exact N1|]. destruct r1 as [|t r2]; [nf_done|].
    destruct (is_kind KLBracket t); [|nf_done].
    pose proof (split_lengths KRBracket r2). destruct (split KRBracket r2) as [sub rest0]. cbn [fst snd] in *.
    destruct (p_expr srclen f sub) as [[i subrest] ei] eqn:Ee.
    assert (N2 : nofuel ei) by (eapply He; [|exact Ee]; unfold need_expr; cbn [length] in *; lia).
    destruct rest0 as [|c rest']; [nf_done|]. destruct (is_kind KRBracket c); nf_done.
  - (* inner *) intros ts x rest e Hf. unfold need_inner in Hf. rewrite p_inner_S. destruct ts as [|t r]; [nf_done|].
    destruct (_ || _); [nf_done|].
    assert (Hq : forall (ps : option (list ident)) r1 (e0 : errs), nofuel e0 -> (option_map EQual ps, r1, e0) = (x, rest, e) -> nofuel e).
    { intros ps r1 e0 Hn [= <- <- <-]. exact Hn. }
    destruct (is_kind KIdentifier t).
    { destruct (p_qualified srclen (t :: r)) as [[ps r1] e0] eqn:Epq. pose proof (p_qualified_len _ _ _ _ _ Epq) as Hlen.
      pose proof (p_qualified_nofuel _ _ _ _ Epq) as Nq.
      destruct ps as [[|i [|j l]]|]; try (apply Hq; exact Nq).
      destruct (p_qualified_sound _ _ _ _ _ Epq) as (used & Hused & Hqq & _).
      apply qual_single in Hqq as (tq & -> & _). apply (f_equal (@length token)) in Hused. cbn [length app] in Hused.
      destruct r1 as [|lp r2]; [nf_done|]. destruct (is_kind KLParen lp); [|nf_done].
      pose proof (split_lengths KRParen r2). destruct (split KRParen r2) as [sub rest0]. cbn [fst snd] in *.
      destruct (p_expr_list srclen f sub) as [[args subrest] ea] eqn:El.
      assert (N1 : nofuel ea) by (eapply Hl; [|exact El]; unfold need_list; cbn [length] in *; lia).
      destruct (is_nf ea); [destruct rest0 as [|c rest']; [nf_done|destruct (is_kind KRParen c); nf_done]|].
      destruct (no_err ea); [|destruct rest0 as [|c rest']; [nf_done|destruct (is_kind KRParen c); nf_done]].
      destruct subrest as [|c0 sr]; [destruct rest0 as [|c rest']; [nf_done|destruct (is_kind KRParen c); nf_done]|].
      destruct (is_kind KComma c0); destruct rest0 as [|c rest']; try nf_done; destruct (is_kind KRParen c); nf_done. }
    destruct (is_kind KQuotedIdentifier t).
    { destruct (p_qualified srclen (t :: r)) as [[ps r1] e0] eqn:Epq. apply Hq. exact (p_qualified_nofuel _ _ _ _ Epq). }
    destruct (is_kind KLParen t); [|nf_done].
    pose proof (split_lengths KRParen r). destruct (split KRParen r) as [sub rest0]. cbn [fst snd] in *.
    destruct (p_expr srclen f sub) as [[x0 subrest] ex] eqn:Ee.
    assert (N1 : nofuel ex) by (eapply He; [|exact Ee]; unfold need_expr; cbn [length] in *; lia).
    destruct rest0 as [|c rest']; [nf_done|]. destruct (is_kind KRParen c); nf_done.
  - (* list *) intros ts x rest e Hf. unfold need_list in Hf. rewrite p_expr_list_S.
    destruct (p_expr srclen f ts) as [[x0 r1] e1] eqn:Ee. pose proof (Le _ _ _ _ Ee).
    assert (N1 : nofuel e1) by (eapply He; [|exact Ee]; unfold need_expr; lia).
    destruct (negb (no_err e1)); [intros [= <- <- <-]; exact N1|].
    destruct (p_expr_list_tail srclen f r1) as [[xs r2] e2] eqn:Et.
    assert (N2 : nofuel e2) by (eapply Ht; [|exact Et]; unfold need_tail; lia). nf_done.
  - (* tail *) intros ts x rest e Hf. unfold need_tail in Hf. rewrite p_expr_list_tail_S. destruct ts as [|c r]; [nf_done|].
    destruct (is_kind KComma c); [|nf_done]. destruct (p_expr srclen f r) as [[x0 r1] e1] eqn:Ee. pose proof (Le _ _ _ _ Ee).
    assert (N1 : nofuel e1) by (eapply He; [|exact Ee]; unfold need_expr; cbn [length] in *; lia).
    destruct (is_nf e1); [nf_done|]. destruct (negb (no_err e1)); [nf_done|].
    destruct (p_expr_list_tail srclen f r1) as [[xs r2] e2] eqn:Et.
    assert (N2 : nofuel e2) by (eapply Ht; [|exact Et]; unfold need_tail; cbn [length] in *; lia). nf_done.
  - (* trail *) intros x0 minp ts x rest e Hf. unfold need_trail in Hf. rewrite p_trail_S. cbv zeta. destruct ts as [|op1 r]; [nf_done|].
    destruct (_ || _); [nf_done|]. destruct (is_kind KIn op1).
    + destruct r as [|lp r1]; [nf_done|]. destruct (is_kind KLParen lp); [|nf_done].
      pose proof (split_lengths KRParen r1). destruct (split KRParen r1) as [sub rest0]. cbn [fst snd] in *.
      destruct (p_expr_list srclen f sub) as [[vals subrest] ev] eqn:El.
      assert (N1 : nofuel ev) by (eapply Hl; [|exact El]; unfold need_list; cbn [length] in *; lia).
      destruct rest0 as [|c rest']; [nf_done|]. destruct (is_kind KRParen c); [|nf_done].
      destruct (p_trail srclen f _ minp rest') as [[x'' r2] e2] eqn:Et.
      assert (N2 : nofuel e2) by (eapply Htr; [|exact Et]; unfold need_trail; cbn [length] in *; lia). nf_done.
    + destruct (p_unary srclen f r) as [[y r1] ey] eqn:Eu. pose proof (Lu _ _ _ _ Eu).
      assert (N1 : nofuel ey) by (eapply Hu; [|exact Eu]; unfold need_unary; cbn [length] in *; lia).
      destruct (p_higher srclen f y (op_prec (tkind op1)) r1) as [[y' r2] e2] eqn:Eh. pose proof (Lh _ _ _ _ _ _ Eh).
      assert (N2 : nofuel e2) by (eapply Hh; [|exact Eh]; unfold need_higher; cbn [length] in *; lia).
      destruct (p_trail srclen f _ minp r2) as [[x'' r3] e3] eqn:Et.
      assert (N3 : nofuel e3) by (eapply Htr; [|exact Et]; unfold need_trail; cbn [length] in *; lia). nf_done.
  - (* higher *) intros y0 prec1 ts x rest e Hf. unfold need_higher in Hf. rewrite p_higher_S. cbv zeta. destruct ts as [|op2 r]; [nf_done|].
    destruct ((op_prec (tkind op2) <? 0)%Z || (op_prec (tkind op2) <=? prec1)%Z) eqn:Eth; [nf_done|].
    destruct (p_trail srclen f y0 (prec1 + 1)%Z (op2 :: r)) as [[y' r1] e1] eqn:Et.
    assert (N1 : nofuel e1) by (eapply Htr; [|exact Et]; unfold need_trail; lia).
    assert (Hr1 : length r1 <= length r).
    { destruct f as [|f']; [cbn [length] in Hf; lia|]. eapply p_trail_consumes; [|exact Et].
      apply Bool.orb_false_iff in Eth as [E1 E2]. rewrite E1. cbn [orb]. apply Z.ltb_ge. apply Z.leb_gt in E2. lia. }
    destruct (p_higher srclen f y' prec1 r1) as [[y'' r2] e2] eqn:Eh.
    assert (N2 : nofuel e2) by (eapply Hh; [|exact Eh]; unfold need_higher; cbn [length] in *; lia). nf_done.
Qed.

Theorem p_expr_nofuel f ts x rest e : 4 * length ts + 4 <= f -> p_expr srclen f ts = (x, rest, e) -> nofuel e.
Proof. destruct (fuel8_all f) as (H & _). apply H. Qed.
Theorem p_expr_list_nofuel f ts x rest e : 4 * length ts + 5 <= f -> p_expr_list srclen f ts = (x, rest, e) -> nofuel e.
Proof. destruct (fuel8_all f) as (_ & _ & _ & _ & H & _). apply H. Qed.
End Fuel.

(** ** operators, statements, programs *)
Section FuelStmt.
Variable srclen : nat.

Ltac nf_done := intros [= <- <- <-]; auto 10 with nofuel.
Ltac len_done := intros [= <- <- <-]; cbn [length] in *; lia.

Lemma p_expr_len f : LenOK (p_expr srclen f).
Proof. destruct (len8_all srclen f) as (H & _). exact H. Qed.

Lemma p_sort_term_len f : LenOK (p_sort_term srclen f).
Proof.
  intros ts x rest e. unfold p_sort_term. destruct (p_expr srclen f ts) as [[x0 r1] e1] eqn:Ee. pose proof (p_expr_len _ _ _ _ _ Ee).
  destruct (negb (no_err e1)); [len_done|]. cbv zeta beta.
  assert (Hn : forall asc aspan nf0 (r : list token), length r <= length r1 ->
    match r with
    | t :: r' =>
      if is_word w_nulls t then
        match r' with
        | t2 :: r'' =>
          if is_word w_first t2 then (option_map (fun x => mkSortTerm x asc aspan true (Some (tstart t, tend t2))) x0, r'', [])
          else if is_word w_last t2 then (option_map (fun x => mkSortTerm x asc aspan false (Some (tstart t, tend t2))) x0, r'', [])
          else (None, r', err_at (tstart t2))
        | [] => (None, [], err_at srclen)
        end
      else (option_map (fun x => mkSortTerm x asc aspan nf0 None) x0, r, [])
    | [] => (option_map (fun x => mkSortTerm x asc aspan nf0 None) x0, [], [])
    end = (x, rest, e) -> length rest <= length ts /\ nofuel e).
  { intros asc aspan nf0 r Hr. destruct r as [|t1 r']; [intros [= <- <- <-]; split; [cbn; lia|reflexivity]|].
    destruct (is_word w_nulls t1); [|intros [= <- <- <-]; split; [lia|reflexivity]].
    destruct r' as [|t2 r'']; [intros [= <- <- <-]; split; [cbn; lia|reflexivity]|].
    destruct (is_word w_first t2); [intros [= <- <- <-]; split; [cbn in *; lia|reflexivity]|].
    destruct (is_word w_last t2); intros [= <- <- <-]; split; try reflexivity; cbn in *; lia. }
  destruct r1 as [|t1 r]; [len_done|].
  destruct (is_word w_asc t1); [intros H'; apply (Hn true (tok_span t1) true r) in H'; [tauto|cbn; lia]|].
  destruct (is_word w_desc t1); [intros H'; apply (Hn false (tok_span t1) false r) in H'; [tauto|cbn; lia]|].
  destruct (is_word w_nulls t1) eqn:En.
  { intros H'. pose proof (Hn false None false (t1 :: r) (le_n _)) as Hs. cbv beta iota in Hs. rewrite En in Hs. apply Hs in H'. tauto. }
  len_done.
Qed.

Lemma p_sort_term_nofuel f ts x rest e : 4 * length ts + 4 <= f -> p_sort_term srclen f ts = (x, rest, e) -> nofuel e.
Proof.
  intros Hf. unfold p_sort_term. destruct (p_expr srclen f ts) as [[x0 r1] e1] eqn:Ee.
  pose proof (p_expr_nofuel _ _ _ _ _ _ Hf Ee) as N1.
  destruct (negb (no_err e1)); [intros [= <- <- <-]; exact N1|]. cbv zeta beta.
  assert (Hn : forall asc aspan nf0 (r : list token),
    match r with
    | t :: r' =>
      if is_word w_nulls t then
        match r' with
        | t2 :: r'' =>
          if is_word w_first t2 then (option_map (fun x => mkSortTerm x asc aspan true (Some (tstart t, tend t2))) x0, r'', [])
          else if is_word w_last t2 then (option_map (fun x => mkSortTerm x asc aspan false (Some (tstart t, tend t2))) x0, r'', [])
          else (None, r', err_at (tstart t2))
        | [] => (None, [], err_at srclen)
        end
      else (option_map (fun x => mkSortTerm x asc aspan nf0 None) x0, r, [])
    | [] => (option_map (fun x => mkSortTerm x asc aspan nf0 None) x0, [], [])
    end = (x, rest, e) -> nofuel e).
  { intros asc aspan nf0 r. destruct r as [|t1 r']; [nf_done|]. destruct (is_word w_nulls t1); [|nf_done].
    destruct r' as [|t2 r'']; [nf_done|]. destruct (is_word w_first t2); [nf_done|]. destruct (is_word w_last t2); nf_done. }
  destruct r1 as [|t1 r]; [nf_done|].
  destruct (is_word w_asc t1); [apply Hn|]. destruct (is_word w_desc t1); [apply Hn|].
  destruct (is_word w_nulls t1) eqn:En.
  { intros H'. pose proof (Hn false None false (t1 :: r)) as Hs. cbv beta iota in Hs. rewrite En in Hs. exact (Hs H'). }
  nf_done.
Qed.

Lemma p_row_count_len f : LenOK (p_row_count srclen f).
Proof.
  intros ts x rest e. unfold p_row_count. destruct (p_expr srclen f ts) as [[x0 r1] e1] eqn:Ee. pose proof (p_expr_len _ _ _ _ _ Ee).
  destruct (negb (no_err e1)); [len_done|]. destruct x0 as [[]|]; try len_done. destruct (lit_is_integer k v); len_done.
Qed.
Lemma p_row_count_nofuel f ts x rest e : 4 * length ts + 4 <= f -> p_row_count srclen f ts = (x, rest, e) -> nofuel e.
Proof.
  intros Hf. unfold p_row_count. destruct (p_expr srclen f ts) as [[x0 r1] e1] eqn:Ee. pose proof (p_expr_nofuel _ _ _ _ _ _ Hf Ee) as N1.
  destruct (negb (no_err e1)); [intros [= <- <- <-]; exact N1|]. destruct x0 as [[]|]; try nf_done. destruct (lit_is_integer k v); nf_done.
Qed.

Lemma p_ext_col_len f : LenOK (p_ext_col srclen f).
Proof.
  intros ts c rest e. unfold p_ext_col.
  assert (Hplain : (let '(x, r1, e) := p_expr srclen f ts in (when_ok e (option_map (mkExtCol None None) x), r1, e)) = (c, rest, e) -> length rest <= length ts).
  { destruct (p_expr srclen f ts) as [[x r1] e1] eqn:Ee. pose proof (p_expr_len _ _ _ _ _ Ee). len_done. }
  destruct (p_ident srclen ts) as [[[i|] ri] ei] eqn:Ei; [|exact Hplain]. pose proof (p_ident_len _ _ _ _ _ Ei).
  destruct ri as [|a r]; [exact Hplain|]. destruct (is_kind KAssign a); [|exact Hplain].
  destruct (p_expr srclen f r) as [[x r1] e1] eqn:Ee. pose proof (p_expr_len _ _ _ _ _ Ee). len_done.
Qed.
Lemma p_ext_col_nofuel f ts c rest e : 4 * length ts + 4 <= f -> p_ext_col srclen f ts = (c, rest, e) -> nofuel e.
Proof.
  intros Hf. unfold p_ext_col.
  assert (Hplain : (let '(x, r1, e) := p_expr srclen f ts in (when_ok e (option_map (mkExtCol None None) x), r1, e)) = (c, rest, e) -> nofuel e).
  { destruct (p_expr srclen f ts) as [[x r1] e1] eqn:Ee. pose proof (p_expr_nofuel _ _ _ _ _ _ Hf Ee). nf_done. }
  destruct (p_ident srclen ts) as [[[i|] ri] ei] eqn:Ei; [|exact Hplain]. pose proof (p_ident_len _ _ _ _ _ Ei).
  destruct ri as [|a r]; [exact Hplain|]. destruct (is_kind KAssign a); [|exact Hplain].
  destruct (p_expr srclen f r) as [[x r1] e1] eqn:Ee.
  assert (nofuel e1) by (eapply p_expr_nofuel; [|exact Ee]; cbn [length] in *; lia). nf_done.
Qed.

(** the list loops: the counter [n] is never exhausted when it exceeds the number of tokens *)
Lemma p_sort_terms_ok f : forall n ts l rest e, length ts < n -> 4 * length ts + 4 <= f ->
  p_sort_terms srclen n f ts = (l, rest, e) -> nofuel e /\ length rest <= length ts.
Proof.
  induction n as [|n IH]; intros ts l rest e Hn Hf; [lia|]. cbn [p_sort_terms].
  destruct (p_sort_term srclen f ts) as [[t r1] e1] eqn:Et.
  pose proof (p_sort_term_len _ _ _ _ _ Et). pose proof (p_sort_term_nofuel _ _ _ _ _ Hf Et).
  destruct (negb (no_err e1)); [intros [= <- <- <-]; split; [auto with nofuel|lia]|].
  destruct r1 as [|c r2]; [intros [= <- <- <-]; split; [reflexivity|cbn; lia]|].
  destruct (is_kind KComma c); [|intros [= <- <- <-]; split; [reflexivity|lia]].
  destruct (p_sort_terms srclen n f r2) as [[tl r3] e3] eqn:Er. intros [= <- <- <-].
  cbn [length] in *. assert (G1 : length r2 < n) by lia. assert (G2 : 4 * length r2 + 4 <= f) by lia. destruct (IH _ _ _ _ G1 G2 Er). split; [assumption|cbn [length] in *; lia].
Qed.

Lemma p_project_cols_ok f : forall n ts l rest e, length ts < n -> 4 * length ts + 4 <= f ->
  p_project_cols srclen n f ts = (l, rest, e) -> nofuel e /\ length rest <= length ts.
Proof.
  induction n as [|n IH]; intros ts l rest e Hn Hf; [lia|]. cbn [p_project_cols].
  destruct (p_ident srclen ts) as [[[name|] r] e0] eqn:Ei.
  2:{ pose proof (p_ident_len _ _ _ _ _ Ei). pose proof (p_ident_nofuel _ _ _ _ _ Ei). intros [= <- <- <-]. split; [auto with nofuel|lia]. }
  apply p_ident_sound in Ei as (ti & -> & _ & _). cbv zeta beta.
  assert (Hmore : forall r' col, length r' < length (ti :: r) ->
     (let '(tl, r3, e3) := p_project_cols srclen n f r' in (when_ok e3 (opt_map2 cons col tl), r3, e3)) = (l, rest, e) -> nofuel e /\ length rest <= length (ti :: r)).
  { intros r' col Hr. destruct (p_project_cols srclen n f r') as [[tl r3] e3] eqn:Er. intros [= <- <- <-].
    cbn [length] in *. assert (G1 : length r' < n) by lia. assert (G2 : 4 * length r' + 4 <= f) by lia.
    destruct (IH _ _ _ _ G1 G2 Er). split; [assumption|lia]. }
  destruct r as [|sep r1]; [intros [= <- <- <-]; split; [reflexivity|cbn; lia]|].
  destruct (is_kind KComma sep); [apply Hmore; cbn; lia|].
  destruct (is_kind KAssign sep); [|intros [= <- <- <-]; split; [reflexivity|cbn; lia]].
  destruct (p_expr srclen f r1) as [[x r2] e2] eqn:Ee. pose proof (p_expr_len _ _ _ _ _ Ee).
  assert (nofuel e2) by (eapply p_expr_nofuel; [|exact Ee]; cbn [length] in *; lia).
  destruct (negb (no_err e2)); [intros [= <- <- <-]; split; [auto with nofuel|cbn [length] in *; lia]|].
  destruct r2 as [|sep2 r3]; [intros [= <- <- <-]; split; [reflexivity|cbn; lia]|].
  destruct (is_kind KComma sep2); [apply Hmore; cbn [length] in *; lia|intros [= <- <- <-]; split; [reflexivity|cbn [length] in *; lia]].
Qed.

Lemma p_extend_cols_ok f : forall n ts l rest e, length ts < n -> 4 * length ts + 4 <= f ->
  p_extend_cols srclen n f ts = (l, rest, e) -> nofuel e /\ length rest <= length ts.
Proof.
  induction n as [|n IH]; intros ts l rest e Hn Hf; [lia|]. cbn [p_extend_cols].
  destruct (p_ext_col srclen f ts) as [[c r1] e1] eqn:Ec. pose proof (p_ext_col_len _ _ _ _ _ Ec). pose proof (p_ext_col_nofuel _ _ _ _ _ Hf Ec).
  destruct (negb (no_err e1)); [intros [= <- <- <-]; split; [auto with nofuel|lia]|].
  destruct r1 as [|sep r2]; [intros [= <- <- <-]; split; [reflexivity|cbn; lia]|].
  destruct (is_kind KComma sep); [|intros [= <- <- <-]; split; [reflexivity|lia]].
  destruct (p_extend_cols srclen n f r2) as [[tl r3] e3] eqn:Er. intros [= <- <- <-].
  cbn [length] in *. assert (G1 : length r2 < n) by lia. assert (G2 : 4 * length r2 + 4 <= f) by lia. destruct (IH _ _ _ _ G1 G2 Er). split; [assumption|cbn [length] in *; lia].
Qed.

Lemma p_group_cols_ok f : forall n ts l rest e, length ts < n -> 4 * length ts + 4 <= f ->
  p_group_cols srclen n f ts = (l, rest, e) -> nofuel e /\ length rest <= length ts.
Proof.
  induction n as [|n IH]; intros ts l rest e Hn Hf; [lia|]. cbn [p_group_cols].
  destruct (p_ext_col srclen f ts) as [[c r1] e1] eqn:Ec. pose proof (p_ext_col_len _ _ _ _ _ Ec). pose proof (p_ext_col_nofuel _ _ _ _ _ Hf Ec).
  destruct (negb (no_err e1)); [intros [= <- <- <-]; split; [auto with nofuel|lia]|].
  destruct r1 as [|sep r2]; [intros [= <- <- <-]; split; [reflexivity|cbn; lia]|].
  destruct (is_kind KComma sep); [|intros [= <- <- <-]; split; [reflexivity|lia]].
  destruct (p_group_cols srclen n f r2) as [[tl r3] e3] eqn:Er. intros [= <- <- <-].
  cbn [length] in *. assert (G1 : length r2 < n) by lia. assert (G2 : 4 * length r2 + 4 <= f) by lia. destruct (IH _ _ _ _ G1 G2 Er). split; [assumption|cbn [length] in *; lia].
Qed.

Lemma p_summarize_cols_ok f : forall n ac ts l rest e fin tc, length ts < n -> 4 * length ts + 4 <= f ->
  p_summarize_cols srclen n f ac ts = (l, rest, e, fin, tc) -> nofuel e /\ length rest <= length ts.
Proof.
  induction n as [|n IH]; intros ac ts l rest e fin tc Hn Hf; [lia|]. cbn [p_summarize_cols].
  destruct (p_ext_col srclen f ts) as [[c r1] e1] eqn:Ec. pose proof (p_ext_col_len _ _ _ _ _ Ec). pose proof (p_ext_col_nofuel _ _ _ _ _ Hf Ec).
  destruct (is_nf e1); [intros [= <- <- <- <- <-]; split; [reflexivity|lia]|].
  destruct (negb (no_err e1)); [intros [= <- <- <- <- <-]; split; [auto with nofuel|lia]|].
  destruct r1 as [|sep r2]; [intros [= <- <- <- <- <-]; split; [reflexivity|cbn; lia]|].
  destruct (is_kind KComma sep); [|intros [= <- <- <- <- <-]; split; [reflexivity|lia]].
  destruct (p_summarize_cols srclen n f true r2) as [[[[tl r3] e3] fin'] tc'] eqn:Er. intros [= <- <- <- <- <-].
  cbn [length] in *. assert (G1 : length r2 < n) by lia. assert (G2 : 4 * length r2 + 4 <= f) by lia. destruct (IH _ _ _ _ _ _ _ G1 G2 Er). split; [assumption|cbn [length] in *; lia].
Qed.

Lemma p_render_prop_ok f ts p rest e : 4 * length ts + 4 <= f -> p_render_prop srclen f ts = (p, rest, e) -> nofuel e /\ length rest <= length ts.
Proof.
  intros Hf. unfold p_render_prop. destruct (p_ident srclen ts) as [[[name|] r] e0] eqn:Ei.
  2:{ pose proof (p_ident_len _ _ _ _ _ Ei). pose proof (p_ident_nofuel _ _ _ _ _ Ei). intros [= <- <- <-]. split; [assumption|lia]. }
  pose proof (p_ident_len _ _ _ _ _ Ei).
  destruct r as [|a r1]; [intros [= <- <- <-]; split; [reflexivity|cbn; lia]|].
  destruct (is_kind KAssign a); [|intros [= <- <- <-]; split; [reflexivity|cbn [length] in *; lia]].
  destruct (p_expr srclen f r1) as [[v r2] e2] eqn:Ee. pose proof (p_expr_len _ _ _ _ _ Ee).
  assert (nofuel e2) by (eapply p_expr_nofuel; [|exact Ee]; cbn [length] in *; lia).
  destruct (negb (no_err e2)); intros [= <- <- <-]; (split; [auto with nofuel|cbn [length] in *; lia]).
Qed.

Lemma p_render_props_ok f : forall n ts l rest e, length ts < n -> 4 * length ts + 4 <= f ->
  p_render_props srclen n f ts = (l, rest, e) -> nofuel e /\ length rest <= length ts.
Proof.
  induction n as [|n IH]; intros ts l rest e Hn Hf; [lia|]. cbn [p_render_props].
  destruct (p_render_prop srclen f ts) as [[p r1] e1] eqn:Ep. destruct (p_render_prop_ok _ _ _ _ _ Hf Ep).
  destruct (negb (no_err e1)); [intros [= <- <- <-]; split; [auto with nofuel|lia]|].
  destruct r1 as [|t r2]; [intros [= <- <- <-]; split; [reflexivity|cbn; lia]|].
  destruct (is_kind KRParen t); [intros [= <- <- <-]; split; [reflexivity|cbn [length] in *; lia]|].
  destruct (is_kind KComma t); [|intros [= <- <- <-]; split; [reflexivity|cbn [length] in *; lia]].
  destruct (p_render_props srclen n f r2) as [[tl r3] e3] eqn:Er. intros [= <- <- <-].
  cbn [length] in *. assert (G1 : length r2 < n) by lia. assert (G2 : 4 * length r2 + 4 <= f) by lia. destruct (IH _ _ _ _ G1 G2 Er). split; [assumption|cbn [length] in *; lia].
Qed.
End FuelStmt.

Section FuelOps.
Variable srclen : nat.

Ltac nf_done := intros [= <- <- <-]; auto 10 with nofuel.
Ltac nf4 := intros [= <- <- <- <-]; auto 10 with nofuel.

Definition need_ops (n : nat) := 4 * n + 6.

Definition G_tab (f : nat) : Prop := forall ts t rest e, need_ops (length ts) <= f -> p_tabular srclen f ts = (t, rest, e) -> nofuel e.
Definition G_ops (f : nat) : Prop := forall ts l rest e, need_ops (length ts) <= f -> p_operators srclen f ts = (l, rest, e) -> nofuel e.
Definition G_op (f : nat) : Prop := forall pipe name ts op rest e known, need_ops (length ts) <= f ->
  p_operator srclen f pipe name ts = (op, rest, e, known) -> nofuel e.

Lemma after_kind_nofuel f pipe kw ksp kasp flavor r2 e0 op rest e known : G_tab f -> nofuel e0 -> 4 * length r2 + 5 <= f ->
  after_kind srclen f pipe kw ksp kasp flavor r2 e0 = (op, rest, e, known) -> nofuel e.
Proof.
  intros Htab He0 Hf. unfold after_kind.
  destruct r2 as [|lp r3]; [nf4|]. destruct (is_kind KLParen lp); [|nf4].
  pose proof (split_lengths KRParen r3). destruct (split KRParen r3) as [sub rest0]. cbn [fst snd] in *.
  destruct (p_tabular srclen f sub) as [[rtab subrest] er] eqn:Et. cbv zeta.
  assert (N1 : nofuel er) by (eapply Htab; [|exact Et]; unfold need_ops; cbn [length] in *; lia).
  destruct rest0 as [|rp r4]; [nf4|]. destruct (is_kind KRParen rp); [|nf4].
  destruct r4 as [|on r5]; [nf4|]. destruct (is_word w_on on); [|nf4].
  destruct (p_expr_list srclen f r5) as [[conds r6] ec] eqn:El.
  assert (N2 : nofuel ec) by (eapply p_expr_list_nofuel; [|exact El]; cbn [length] in *; lia). nf4.
Qed.

Lemma step_op_nofuel f : G_tab f -> G_op (S f).
Proof.
  intros Htab pipe name ts op rest e known Hf. unfold need_ops in Hf. rewrite p_operator_S. cbv zeta.
  destruct (str_eqb (tvalue name) w_count); [nf4|].
  destruct (_ || _). { destruct (p_expr srclen f ts) as [[x r] e0] eqn:Ee. assert (nofuel e0) by (eapply p_expr_nofuel; [|exact Ee]; lia). nf4. }
  destruct (_ || _).
  { destruct ts as [|b r]; [nf4|]. destruct (is_kind KBy b); [|nf4].
    destruct (p_sort_terms srclen _ f r) as [[terms r1] e0] eqn:Es.
    eapply (p_sort_terms_ok srclen f) in Es as [? ?]; [|cbn [length] in *; lia|cbn [length] in *; lia]. nf4. }
  destruct (_ || _). { destruct (p_row_count srclen f ts) as [[x r] e0] eqn:Ee. assert (nofuel e0) by (eapply p_row_count_nofuel; [|exact Ee]; lia). nf4. }
  destruct (str_eqb (tvalue name) w_top).
  { destruct (p_row_count srclen f ts) as [[x r] e0] eqn:Ee. assert (nofuel e0) by (eapply p_row_count_nofuel; [|exact Ee]; lia).
    pose proof (p_row_count_len _ _ _ _ _ _ Ee).
    destruct (negb (no_err e0)); [nf4|]. destruct r as [|b r1]; [nf4|]. destruct (is_kind KBy b); [|nf4].
    destruct (p_sort_term srclen f r1) as [[col r2] e2] eqn:Es.
    assert (nofuel e2) by (eapply p_sort_term_nofuel; [|exact Es]; cbn [length] in *; lia). nf4. }
  destruct (str_eqb (tvalue name) w_project).
  { destruct (p_project_cols srclen _ f ts) as [[cols r] e0] eqn:Ec.
    eapply (p_project_cols_ok srclen f) in Ec as [? ?]; [|cbn [length] in *; lia|cbn [length] in *; lia]. nf4. }
  destruct (str_eqb (tvalue name) w_extend).
  { destruct (p_extend_cols srclen _ f ts) as [[cols r] e0] eqn:Ec.
    eapply (p_extend_cols_ok srclen f) in Ec as [? ?]; [|cbn [length] in *; lia|cbn [length] in *; lia]. nf4. }
  destruct (str_eqb (tvalue name) w_summarize).
  { destruct (p_summarize_cols srclen _ f false ts) as [[[[cols r] e0] fin] tc] eqn:Ec.
    eapply (p_summarize_cols_ok srclen f) in Ec as [N1 L1]; [|cbn [length] in *; lia|cbn [length] in *; lia].
    destruct fin; [nf4|].
    destruct r as [|b r1]. { destruct (_ || _); nf4. }
    destruct (is_kind KBy b).
    { destruct (p_group_cols srclen _ f r1) as [[gs r2] e2] eqn:Eg.
      eapply (p_group_cols_ok srclen f) in Eg as [? ?]; [|cbn [length] in *; lia|cbn [length] in *; lia]. nf4. }
    destruct (_ || _); nf4. }
  destruct (str_eqb (tvalue name) w_join).
  { destruct ts as [|t0 r0]; [nf4|].
    destruct (is_word w_kind t0).
    - destruct r0 as [|a r1]; [nf4|]. destruct (is_kind KAssign a); [|nf4].
      destruct r1 as [|fl r2]; [nf4|]. destruct (is_kind KIdentifier fl); [|nf4].
      intros H. apply (after_kind_nofuel f pipe (tok_span name) (tok_span t0) (tok_span a) (Some (mk_ident fl)) r2
                         (if is_join_type (tvalue fl) then [] else err_at (tstart fl)) op rest e known Htab); [| |exact H].
      + destruct (is_join_type (tvalue fl)); reflexivity.
      + cbn [length] in *. lia.
    - intros H. apply (after_kind_nofuel f pipe (tok_span name) None None None (t0 :: r0) [] op rest e known Htab); [reflexivity| |exact H].
      cbn [length] in *. lia. }
  destruct (str_eqb (tvalue name) w_as). { destruct (p_ident srclen ts) as [[i r] e0] eqn:Ei. pose proof (p_ident_nofuel _ _ _ _ _ Ei). nf4. }
  destruct (str_eqb (tvalue name) w_render); [|nf4].
  destruct (p_ident srclen ts) as [[[chart|] r] e0] eqn:Ei; [|nf4]. pose proof (p_ident_len _ _ _ _ _ Ei).
  destruct r as [|wt r1]; [nf4|]. destruct (is_word w_with wt); [|nf4].
  destruct r1 as [|lp r2]; [nf4|]. destruct (is_kind KLParen lp); [|nf4].
  destruct (p_render_props srclen _ f r2) as [[ps r3] e1] eqn:Ep.
  eapply (p_render_props_ok srclen f) in Ep as [? ?]; [|cbn [length] in *; lia|cbn [length] in *; lia]. nf4.
Qed.

Lemma step_ops_nofuel f : G_op f -> G_ops f -> G_ops (S f).
Proof.
  intros Hop Hops ts l rest e Hf. unfold need_ops in Hf. rewrite p_operators_S.
  destruct ts as [|pipe r]; [nf_done|]. destruct (is_kind KPipe pipe); [|nf_done].
  pose proof (split_lengths KPipe r). destruct (split KPipe r) as [sub rest0]. cbn [fst snd] in *.
  destruct (p_operators srclen f rest0) as [[ops rest'] e2] eqn:Er.
  assert (N2 : nofuel e2) by (eapply Hops; [|exact Er]; unfold need_ops; cbn [length] in *; lia).
  destruct sub as [|name sr]; [intros [= <- <- <-]; unfold nofuel in *; cbn; exact N2|].
  destruct (negb (is_kind KIdentifier name)); [intros [= <- <- <-]; unfold nofuel in *; cbn; exact N2|].
  destruct (p_operator srclen f (tok_span pipe) name sr) as [[[op subrest] eo] known] eqn:Eo.
  assert (N1 : nofuel eo) by (eapply Hop; [|exact Eo]; unfold need_ops; cbn [length] in *; lia).
  destruct known; nf_done.
Qed.

Lemma step_tab_nofuel f : G_ops f -> G_tab (S f).
Proof.
  intros Hops ts t rest e Hf. unfold need_ops in Hf. rewrite p_tabular_S.
  destruct (p_ident srclen ts) as [[[name|] r] e0] eqn:Ei.
  - apply p_ident_sound in Ei as (ti & -> & _ & _).
    destruct (p_operators srclen f r) as [[ops rest0] e1] eqn:Eo.
    assert (nofuel e1) by (eapply Hops; [|exact Eo]; unfold need_ops; cbn [length] in *; lia). nf_done.
  - pose proof (p_ident_nofuel _ _ _ _ _ Ei). nf_done.
Qed.

Theorem G_all f : G_tab f /\ G_ops f /\ G_op f.
Proof.
  induction f as [|f (Ht & Hl & Ho)].
  { unfold G_tab, G_ops, G_op, need_ops. repeat split; intros; lia. }
  split; [apply step_tab_nofuel; exact Hl|split; [apply step_ops_nofuel; assumption|apply step_op_nofuel; exact Ht]].
Qed.

(** ** statements *)
Lemma p_let_nofuel f ts s rest e : 4 * length ts + 4 <= f -> p_let srclen f ts = (s, rest, e) -> nofuel e.
Proof.
  intros Hf. unfold p_let. destruct ts as [|kw r]; [nf_done|]. destruct (is_word w_let kw); [|nf_done].
  destruct (p_ident srclen r) as [[[name|] r1] e0] eqn:Ei; [|pose proof (p_ident_nofuel _ _ _ _ _ Ei); nf_done].
  pose proof (p_ident_len _ _ _ _ _ Ei).
  destruct r1 as [|a r2]; [nf_done|]. destruct (is_kind KAssign a); [|nf_done].
  destruct (p_expr srclen f r2) as [[x r3] e1] eqn:Ee.
  assert (nofuel e1) by (eapply p_expr_nofuel; [|exact Ee]; cbn [length] in *; lia). nf_done.
Qed.

Lemma p_statement_nofuel f ts s rest e : 4 * length ts + 6 <= f -> p_statement srclen f ts = (s, rest, e) -> nofuel e.
Proof.
  intros Hf. unfold p_statement. destruct (p_let srclen f ts) as [[s0 r] e0] eqn:El.
  assert (nofuel e0) by (eapply p_let_nofuel; [|exact El]; lia).
  destruct (negb (is_nf e0)); [nf_done|].
  destruct (p_tabular srclen f ts) as [[t r0] e1] eqn:Et.
  destruct (G_all f) as (Htab & _). assert (nofuel e1) by (eapply Htab; [|exact Et]; unfold need_ops; lia). nf_done.
Qed.

Lemma split_semi_lengths ts : length (fst (split_semi ts)) + length (snd (split_semi ts)) = length ts.
Proof. rewrite <- app_length, split_semi_app. reflexivity. Qed.

Lemma p_statements_nofuel f : forall n ts acc l e, length ts < n -> 4 * length ts + 6 <= f -> nofuel acc ->
  p_statements srclen n f ts acc = (l, e) -> nofuel e.
Proof.
  induction n as [|n IH]; intros ts acc l e Hn Hf Hacc; [lia|]. cbn [p_statements].
  pose proof (split_semi_lengths ts). destruct (split_semi ts) as [sub rest]. cbn [fst snd] in *.
  destruct (p_statement srclen f sub) as [[s subrest] es] eqn:Es.
  assert (N1 : nofuel es) by (eapply p_statement_nofuel; [|exact Es]; lia).
  match goal with |- (let '(here, acc') := ?X in _) = _ -> _ => assert (Hacc' : nofuel (snd X)) end.
  { destruct (is_nf es); [destruct subrest; cbn [snd]; auto with nofuel|cbn [snd]; auto 10 with nofuel]. }
  match goal with |- (let '(here, acc') := ?X in _) = _ -> _ => destruct X as [here acc'] end. cbn [snd] in Hacc'.
  destruct rest as [|semi rest']; [intros [= <- <-]; exact Hacc'|].
  destruct (p_statements srclen n f rest' acc') as [tl acc''] eqn:Er. intros [= <- <-].
  eapply IH; [| |exact Hacc'|exact Er]; cbn [length] in *; lia.
Qed.
End FuelOps.

(** [parse] never runs out of fuel. *)
Theorem parse_tokens_never_out_of_fuel srclen ts : parse_tokens srclen ts <> ParseOutOfFuel.
Proof.
  unfold parse_tokens. destruct (p_statements srclen _ _ ts []) as [l e] eqn:Ep.
  assert (N : nofuel e).
  { eapply p_statements_nofuel; [| | |exact Ep]; [lia|unfold parse_fuel; lia|reflexivity]. }
  unfold nofuel in N. rewrite N. destruct (no_err e); [destruct l|]; discriminate.
Qed.

Theorem parse_never_out_of_fuel s : parse s <> ParseOutOfFuel.
Proof. apply parse_tokens_never_out_of_fuel. Qed.

From PQL Require Import Model.Compile.
Theorem compile_never_out_of_fuel params s : compile params s <> CFuel.
Proof.
  unfold compile. pose proof (parse_never_out_of_fuel s) as H. destruct (parse s) as [ss|e| |]; try discriminate; [|congruence].
  destruct (compile_stmts s params ss); discriminate.
Qed.
