(** * Every tree the parser can build is walkable (with the table generated from ast.go). *)
From PQL Require Import Model.Walk Model.Parser Proofs.WalkFacts Proofs.ExprInd Proofs.JoinFacts.
From Coq Require Import Lia.
Local Open Scope list_scope.

Lemma rev_map_rev {A B} (f : A -> B) l : rev (map f (rev l)) = map f l.
Proof. rewrite map_rev, rev_involutive. reflexivity. Qed.

Lemma Forall_map_walkable {A} (g : A -> gnode) l : Forall (fun a => walkable (g a)) l -> Forall walkable (map g l).
Proof. induction 1; cbn [map]; constructor; assumption. Qed.

Ltac norm_rev :=
  cbn [flat_map push_items push_items_field assoc_f fname_eqb fname_code Nat.eqb app];
  repeat rewrite ?app_nil_r, ?rev_app_distr, ?rev_map_rev; cbn [rev app map].

Ltac walk_node pushes kids :=
  apply (walkable_intro _ _ pushes kids); [vm_compute; reflexivity|norm_rev; try reflexivity|].

Lemma walkable_ident i : walkable (g_ident i).
Proof. walk_node (@nil push) (@nil gnode). constructor. Qed.

Lemma walkable_expr e : walkable (g_expr e).
Proof.
  induction e using expr_ind'; cbn [g_expr].
  - walk_node [P_SliceRev F_Parts] (map g_ident ps). apply Forall_map_walkable. apply Forall_forall. intros i _. apply walkable_ident.
  - walk_node [P_Field F_Y false; P_Field F_X false] [g_expr e1; g_expr e2]. repeat constructor; assumption.
  - walk_node [P_Field F_X false] [g_expr e]. repeat constructor; assumption.
  - walk_node [P_SliceRev F_Vals; P_Field F_X false] (g_expr e :: map g_expr vs).
    constructor; [assumption|]. apply Forall_map_walkable. assumption.
  - walk_node [P_Field F_X false] [g_expr e]. repeat constructor; assumption.
  - walk_node (@nil push) (@nil gnode). constructor.
  - walk_node [P_SliceRev F_Args] (map g_expr args). apply Forall_map_walkable. assumption.
  - walk_node [P_Field F_Index false; P_Field F_X false] [g_expr e1; g_expr e2]. repeat constructor; assumption.
Qed.

Lemma walkable_exprs es : Forall walkable (map g_expr es).
Proof. apply Forall_map_walkable. apply Forall_forall. intros e _. apply walkable_expr. Qed.

Lemma walkable_sort_term t : walkable (g_sort_term t).
Proof. unfold g_sort_term. walk_node [P_Field F_X false] [g_expr (st_x t)]. repeat constructor. apply walkable_expr. Qed.

Lemma walkable_proj_col c : walkable (g_proj_col c).
Proof.
  unfold g_proj_col. destruct (pc_x c) as [x|]; cbn [option_map].
  - walk_node [P_Field F_X true; P_Field F_Name false] [g_ident (pc_name c); g_expr x].
    repeat constructor; [apply walkable_ident|apply walkable_expr].
  - walk_node [P_Field F_X true; P_Field F_Name false] [g_ident (pc_name c)]. repeat constructor. apply walkable_ident.
Qed.

Lemma walkable_ext_col c : walkable (g_ext_col N_ExtendColumn c).
Proof.
  unfold g_ext_col. destruct (ec_name c) as [i|]; cbn [option_map].
  - walk_node [P_Field F_X true; P_Field F_Name true] [g_ident i; g_expr (ec_x c)].
    repeat constructor; [apply walkable_ident|apply walkable_expr].
  - walk_node [P_Field F_X true; P_Field F_Name true] [g_expr (ec_x c)]. repeat constructor. apply walkable_expr.
Qed.

Lemma walkable_sum_col c : walkable (g_ext_col N_SummarizeColumn c).
Proof.
  unfold g_ext_col. destruct (ec_name c) as [i|]; cbn [option_map].
  - walk_node [P_Field F_X false; P_Field F_Name true] [g_ident i; g_expr (ec_x c)].
    repeat constructor; [apply walkable_ident|apply walkable_expr].
  - walk_node [P_Field F_X false; P_Field F_Name true] [g_expr (ec_x c)]. repeat constructor. apply walkable_expr.
Qed.

Lemma walkable_table_ref i : walkable (g_table_ref i).
Proof. unfold g_table_ref. walk_node [P_Field F_Table false] [g_ident i]. repeat constructor. apply walkable_ident. Qed.

Lemma Forall_all {A} (P : A -> Prop) l : (forall a, P a) -> Forall P l.
Proof. intros H. apply Forall_forall. intros a _. apply H. Qed.

(** the Name and Value of every render property, in the order they are popped *)
Definition render_kids (props : list render_prop) : list gnode :=
  flat_map (fun p => [g_ident (rp_name p); g_expr (rp_value p)]) props.

Lemma render_items props :
  rev (flat_map (fun c : gnode => match c with GN ck cfs =>
         push_items_field ck cfs (fst (F_Value, true)) (snd (F_Value, true)) ++
         push_items_field ck cfs (fst (F_Name, false)) (snd (F_Name, false)) ++ [] end)
       (rev (map g_render_prop props))) = map WNode (render_kids props).
Proof.
  induction props as [|p r IH]; [reflexivity|].
  cbn [map rev]. rewrite flat_map_app, rev_app_distr, IH.
  cbn [flat_map render_kids]. rewrite !app_nil_r.
  unfold g_render_prop. cbn [push_items_field assoc_f fname_eqb fname_code Nat.eqb fst snd app rev map].
  reflexivity.
Qed.

Lemma walkable_op o : walkable (g_op o).
Proof.
  induction o using operator_ind'.
  - destruct o; try discriminate; cbn [g_op].
    + walk_node (@nil push) (@nil gnode). constructor.
    + walk_node [P_Field F_Predicate false] [g_expr pred]. repeat constructor. apply walkable_expr.
    + walk_node [P_SliceRev F_Terms] (map g_sort_term terms). apply Forall_map_walkable, Forall_all, walkable_sort_term.
    + walk_node [P_Field F_RowCount false] [g_expr n]. repeat constructor. apply walkable_expr.
    + walk_node [P_Field F_Col false; P_Field F_RowCount false] [g_expr n; g_sort_term col].
      repeat constructor; [apply walkable_expr|apply walkable_sort_term].
    + walk_node [P_SliceRev F_Cols] (map g_proj_col cols). apply Forall_map_walkable, Forall_all, walkable_proj_col.
    + walk_node [P_SliceRev F_Cols] (map (g_ext_col N_ExtendColumn) cols). apply Forall_map_walkable, Forall_all, walkable_ext_col.
    + walk_node [P_SliceRev F_GroupBy; P_SliceRev F_Cols]
                (map (g_ext_col N_SummarizeColumn) cols ++ map (g_ext_col N_SummarizeColumn) groupby).
      * rewrite map_app. reflexivity.
      * apply Forall_app. split; apply Forall_map_walkable, Forall_all, walkable_sum_col.
    + walk_node [P_Field F_Name false] [g_ident name]. repeat constructor. apply walkable_ident.
    + apply (walkable_intro _ _ [P_Field F_ChartType false; P_SliceRevEach F_Props [(F_Value, true); (F_Name, false)]]
                            (render_kids props ++ [g_ident chart])); [vm_compute; reflexivity| |].
      * cbn [flat_map push_items push_items_field assoc_f fname_eqb fname_code Nat.eqb app].
        rewrite app_nil_r. cbn [rev]. rewrite render_items, map_app. reflexivity.
      * apply Forall_app. split; [|repeat constructor; apply walkable_ident].
        unfold render_kids. apply Forall_forall. intros x Hx. apply in_flat_map in Hx as (p & _ & [<-|[<-|[]]]);
          [apply walkable_ident|apply walkable_expr].
  - cbn [g_op].
    walk_node [P_SliceRev F_Conditions; P_Field F_Right false]
              (GN N_TabularExpr [(F_Source, GNode (Some (g_table_ref rsrc))); (F_Operators, GSlice (map g_op rops))] :: map g_expr conds).
    constructor; [|apply walkable_exprs].
    walk_node [P_SliceRev F_Operators; P_Field F_Source false] (g_table_ref rsrc :: map g_op rops).
    constructor; [apply walkable_table_ref|apply Forall_map_walkable; assumption].
Qed.

Lemma walkable_tabular t : walkable (g_tabular t).
Proof.
  unfold g_tabular. walk_node [P_SliceRev F_Operators; P_Field F_Source false] (g_table_ref (tsrc t) :: map g_op (tops t)).
  constructor; [apply walkable_table_ref|apply Forall_map_walkable, Forall_all, walkable_op].
Qed.

Theorem walkable_stmt s : walkable (g_stmt s).
Proof.
  destruct s as [kw name a x|t]; cbn [g_stmt]; [|apply walkable_tabular].
  walk_node [P_Field F_X false; P_Field F_Name false] [g_ident name; g_expr x].
  repeat constructor; [apply walkable_ident|apply walkable_expr].
Qed.
