(** * C01, text level (tokens): the expression the writer prints re-reads, under the SQL dialect's
    own operator precedence, as exactly the tree the writer intends ([trans]).
    The reader is the reference reader of Spec/SqlParse.v (precedence climbing: OR < AND < NOT <
    comparison, IS NULL, IN < || < + - < * / % < sign < x[i]).  The printed pieces are viewed as
    SQL tokens piece by piece ([ptoks]); that the concatenated text lexes into these tokens is the
    lexical half (C04: quoting lemmas; executed on every input by the `reread` oracle). *)
From PQL Require Import Spec.SqlRead Model.Trans Proofs.ExprInd Proofs.TableFacts.
From Coq Require Import Lia String.
Local Open Scope list_scope.
Local Open Scope nat_scope.
Local Notation length := List.length (only parsing).

(** ** unfolding equations of the reader *)
Lemma sx_S f (minp : nat) (ts : list stok) :
  sx (S f) minp ts =
    match sx_prefix f minp ts with
    | Some (x, r) => sx_loop f minp x r
    | None => None
    end.
Proof. reflexivity. Qed.

Lemma sx_prefix_S f (minp : nat) (ts : list stok) :
  sx_prefix (S f) minp ts =
    match ts with
    | [] => None
    | t :: r =>
      if is_w k_NOT t then
        if Nat.leb minp 3 then match sx f 3 r with Some (x, r') => Some (XNot x, r') | None => None end else None
      else if is_p p_minus t || is_p p_plus t then
        match sx_prefix f 8 r with
        | Some (x, r') => Some (XUn (match t with SPunct p => p | _ => [] end) x, r')
        | None => None
        end
      else
        match sx_atom f ts with
        | Some (x, r') => sx_postfix f x r'
        | None => None
        end
    end.
Proof. reflexivity. Qed.

Lemma sx_atom_S f (ts : list stok) :
  sx_atom (S f) ts =
    match ts with
    | [] => None
    | SNumber n :: r => Some (XNum n, r)
    | SString s :: r => Some (XStr s, r)
    | SParam p :: r => Some (XWord (123%N :: p ++ [125%N]), r)
    | SQuoted q :: r => let '(ps, r') := col_tail r in Some (XCol (q :: ps), r')
    | SPunct p :: r =>
      if str_eqb p p_lp then
        match sx f 0 r with
        | Some (x, c :: r') => if is_p p_rp c then Some (x, r') else None
        | _ => None
        end
      else None
    | SWord w :: r =>
      if str_eqb (map upper_c w) k_CASE then
        match r with
        | wh :: r1 =>
          if is_w k_WHEN wh then
            match sx f 0 r1 with
            | Some (c, th :: r2) =>
              if is_w k_THEN th then
                match sx f 0 r2 with
                | Some (t, el :: r3) =>
                  if is_w k_ELSE el then
                    match sx f 0 r3 with
                    | Some (e, en :: r4) => if is_w k_END en then Some (XCase c t e, r4) else None
                    | _ => None
                    end
                  else None
                | _ => None
                end
              else None
            | _ => None
            end
          else None
        | [] => None
        end
      else
        match r with
        | lp :: r1 =>
          if is_p p_lp lp then
            match r1 with
            | st :: rp :: r2 =>
              if is_p p_star st && is_p p_rp rp then Some (XCall w [XWord p_star], r2)
              else sx_call f w r1
            | _ => sx_call f w r1
            end
          else Some (XWord w, r)
        | [] => Some (XWord w, [])
        end
    end.
Proof. reflexivity. Qed.

Lemma sx_call_S f (w : str) (ts : list stok) :
  sx_call (S f) w ts =
    match sx_args f ts with
    | Some (args, r) =>
      match args, r with
      | [], fl :: lp :: wh :: r1 =>
        if str_eqb w k_count && is_w k_FILTER fl && is_p p_lp lp && is_w k_WHERE wh then
          match sx f 0 r1 with
          | Some (c, rp :: r2) => if is_p p_rp rp then Some (XCountIf c, r2) else None
          | _ => None
          end
        else Some (XCall w args, r)
      | _, _ => Some (XCall w args, r)
      end
    | None => None
    end.
Proof. reflexivity. Qed.

Lemma sx_args_S f (ts : list stok) :
  sx_args (S f) ts =
    match ts with
    | t :: r =>
      if is_p p_rp t then Some ([], r)
      else
        match sx f 0 ts with
        | Some (x, c :: r') =>
          if is_p p_rp c then Some ([x], r')
          else if is_p p_comma c then
            match sx_args f r' with
            | Some (xs, r'') => match xs with [] => None | _ => Some (x :: xs, r'') end
            | None => None
            end
          else None
        | _ => None
        end
    | [] => None
    end.
Proof. reflexivity. Qed.

Lemma sx_postfix_S f (x : sexpr) (ts : list stok) :
  sx_postfix (S f) x ts =
    match ts with
    | lb :: r =>
      if is_p p_lb lb then
        match sx f 0 r with
        | Some (i, rb :: r') => if is_p p_rb rb then sx_postfix f (XIndex x i) r' else None
        | _ => None
        end
      else Some (x, ts)
    | [] => Some (x, [])
    end.
Proof. reflexivity. Qed.

Lemma sx_loop_S f (minp : nat) (x : sexpr) (ts : list stok) :
  sx_loop (S f) minp x ts =
    match ts with
    | [] => Some (x, [])
    | t :: r =>
      if is_w k_IS t then
        if Nat.leb minp 4 then
          match r with
          | n1 :: r1 =>
            if is_w k_NULL n1 then sx_loop f minp (XIsNull false x) r1
            else if is_w k_NOT n1 then
              match r1 with
              | n2 :: r2 => if is_w k_NULL n2 then sx_loop f minp (XIsNull true x) r2 else None
              | [] => None
              end
            else None
          | [] => None
          end
        else Some (x, ts)
      else if is_w k_IN t then
        if Nat.leb minp 4 then
          match r with
          | lp :: r1 =>
            if is_p p_lp lp then
              match sx_args f r1 with
              | Some (vs, r2) => match vs with [] => None | _ => sx_loop f minp (XIn x vs) r2 end
              | None => None
              end
            else None
          | [] => None
          end
        else Some (x, ts)
      else
        match bin_level t with
        | Some (lvl, op) =>
          if Nat.leb minp lvl then
            match sx f (S lvl) r with
            | Some (y, r') => sx_loop f minp (XBin op x y) r'
            | None => None
            end
          else Some (x, ts)
        | None => Some (x, ts)
        end
    end.
Proof. reflexivity. Qed.

(** ** "for every large enough fuel" *)
Definition Conv {R} (p : nat -> option R) (r : R) : Prop := exists f0, forall f, f0 <= f -> p f = Some r.

Lemma conv_ret {R} (r : R) : Conv (fun _ => Some r) r.
Proof. exists 0. reflexivity. Qed.

(** the tokens that can follow an expression *)
(** a token after which no operator, postfix or call can continue the expression *)
Definition stop_tok (t : stok) : bool :=
  match bin_level t with None => true | Some _ => false end
  && negb (is_w k_IS t) && negb (is_w k_IN t) && negb (is_w k_NOT t) && negb (is_w k_FILTER t)
  && negb (is_p p_lp t) && negb (is_p p_lb t) && negb (is_p p_dot t).
Definition stop (rest : list stok) : Prop := match rest with [] => True | t :: _ => stop_tok t = true end.
(** after an atom: no `(`, no FILTER; after a closed operand additionally no `[` *)
Definition nf (rest : list stok) : Prop := match rest with [] => True | t :: _ => is_p p_lp t = false /\ is_w k_FILTER t = false /\ is_p p_dot t = false end.
Definition nb (rest : list stok) : Prop := match rest with [] => True | t :: _ => is_p p_lp t = false /\ is_w k_FILTER t = false /\ is_p p_dot t = false /\ is_p p_lb t = false end.

Lemma nb_nf rest : nb rest -> nf rest.
Proof. destruct rest; [auto|]. cbn. tauto. Qed.

Lemma stop_facts t : stop_tok t = true ->
  is_p p_lp t = false /\ is_w k_FILTER t = false /\ is_p p_lb t = false /\ is_w k_IS t = false /\ is_w k_IN t = false /\ bin_level t = None
  /\ is_w k_NOT t = false /\ is_p p_dot t = false.
Proof.
  unfold stop_tok. intros H. repeat (apply andb_prop in H as [H ?]).
  repeat match goal with Hn : negb _ = true |- _ => apply Bool.negb_true_iff in Hn end.
  destruct (bin_level t); [discriminate|]. repeat split; assumption.
Qed.

Lemma stop_nb rest : stop rest -> nb rest.
Proof. destruct rest as [|t r]; [auto|]. cbn. intros H. apply stop_facts in H. tauto. Qed.

(** the binary-operator loop stops at a stop token *)
Lemma loop_stop rest : stop rest -> forall f minp x, sx_loop (S f) minp x rest = Some (x, rest).
Proof.
  intros H f minp x. rewrite sx_loop_S. destruct rest as [|t r]; [reflexivity|].
  cbn in H. apply stop_facts in H as (_ & _ & _ & H1 & H2 & H3 & _). rewrite H1, H2, H3. reflexivity.
Qed.

(** ** shapes of token lists with respect to the reader *)
(** an atom: read by [sx_atom], whatever follows (except `(` and FILTER) *)
Definition hd_ok (ts : list stok) : Prop :=
  exists t0 r0, ts = t0 :: r0 /\ is_w k_NOT t0 = false /\ is_p p_minus t0 = false /\ is_p p_plus t0 = false /\ is_p p_rp t0 = false.
Definition A (ts : list stok) (t : sexpr) : Prop :=
  hd_ok ts /\ forall rest, nf rest -> Conv (fun f => sx_atom f (ts ++ rest)) (t, rest).
(** a closed operand: read by [sx_prefix] at any level *)
Definition hd_nrp (ts : list stok) : Prop := exists t0 r0, ts = t0 :: r0 /\ is_p p_rp t0 = false.
Definition C (ts : list stok) (t : sexpr) : Prop :=
  hd_nrp ts /\ forall rest minp, nb rest -> Conv (fun f => sx_prefix f minp (ts ++ rest)) (t, rest).
(** a full expression: read by [sx] at level 0 up to a stop token *)
Definition Fx (ts : list stok) (t : sexpr) : Prop :=
  hd_nrp ts /\ forall rest, stop rest -> Conv (fun f => sx f 0 (ts ++ rest)) (t, rest).

Lemma postfix_stop rest : nb rest -> forall f x, sx_postfix (S f) x rest = Some (x, rest).
Proof. intros H f x. rewrite sx_postfix_S. destruct rest as [|t r]; [reflexivity|]. cbn in H. destruct H as (_ & _ & _ & H). rewrite H. reflexivity. Qed.

Lemma A_C ts t : A ts t -> C ts t.
Proof.
  intros [(t0 & r0 & -> & H1 & H2 & H3 & H4) HA]. split; [exists t0, r0; auto|].
  intros rest minp Hnb. destruct (HA rest (nb_nf _ Hnb)) as (f0 & Hf).
  exists (S (S f0)). intros f Hle. destruct f as [|f]; [lia|]. rewrite sx_prefix_S. cbn [app]. rewrite H1, H2, H3. cbn [orb].
  change (t0 :: r0 ++ rest) with ((t0 :: r0) ++ rest). rewrite Hf by lia.
  destruct f as [|f]; [lia|]. apply postfix_stop. exact Hnb.
Qed.

(** a closed operand as a complete expression at any level *)
Lemma C_E ts t : C ts t -> forall rest minp, stop rest -> Conv (fun f => sx f minp (ts ++ rest)) (t, rest).
Proof.
  intros [_ HC] rest minp Hs. destruct (HC rest minp (stop_nb _ Hs)) as (f0 & Hf).
  exists (S (S f0)). intros f Hle. destruct f as [|f]; [lia|]. rewrite sx_S, Hf by lia.
  destruct f as [|f]; [lia|]. apply loop_stop. exact Hs.
Qed.

Lemma C_Fx ts t : C ts t -> Fx ts t.
Proof. intros H. split; [apply H|]. intros rest Hs. apply (C_E ts t H rest 0 Hs). Qed.

(** ** the forms the writer prints *)
Ltac peel f := destruct f as [|f]; [lia|].
Ltac la := repeat (progress (try rewrite <- !app_assoc; try rewrite !app_nil_r; cbn [app])); reflexivity.

Lemma A_num n : A [SNumber n] (XNum n).
Proof.
  split; [exists (SNumber n), []; repeat split; reflexivity|]. intros rest _. exists 1. intros f Hf. peel f. reflexivity.
Qed.
Lemma A_str s : A [SString s] (XStr s).
Proof.
  split; [exists (SString s), []; repeat split; reflexivity|]. intros rest _. exists 1. intros f Hf. peel f. reflexivity.
Qed.

(** a bare word that is neither NOT nor CASE *)
Definition plain_word (w : str) : Prop := str_eqb (map upper_c w) k_NOT = false /\ str_eqb (map upper_c w) k_CASE = false.

Lemma A_word w : plain_word w -> A [SWord w] (XWord w).
Proof.
  intros [H1 H2]. split; [exists (SWord w), []; repeat split; try reflexivity; exact H1|].
  intros rest Hnf. exists 1. intros f Hf. peel f. rewrite sx_atom_S. cbn [app]. rewrite H2.
  destruct rest as [|t r]; [reflexivity|]. cbn in Hnf. destruct Hnf as (Hlp & _). rewrite Hlp. reflexivity.
Qed.

(** qualified column: "a" . "b" . "c" *)
Fixpoint dots (ps : list str) : list stok :=
  match ps with [] => [] | q :: r => SPunct p_dot :: SQuoted q :: dots r end.

Lemma col_tail_dots ps rest : nf rest -> col_tail (dots ps ++ rest) = (ps, rest).
Proof.
  intros Hnf. induction ps as [|q r IH]; cbn [dots app].
  - destruct rest as [|t r0]; [reflexivity|]. cbn in Hnf. destruct Hnf as (_ & _ & Hd).
    destruct t as [s|s|s|s|s|s]; try reflexivity. cbn [col_tail]. destruct r0 as [|t2 r2]; [reflexivity|].
    destruct t2; try reflexivity. unfold is_p in Hd. rewrite Hd. reflexivity.
  - cbn [col_tail]. change (str_eqb p_dot p_dot) with true. cbn iota. rewrite IH. reflexivity.
Qed.

Lemma A_col q ps : A (SQuoted q :: dots ps) (XCol (q :: ps)).
Proof.
  split; [exists (SQuoted q), (dots ps); repeat split; reflexivity|].
  intros rest Hnf. exists 1. intros f Hf. peel f. rewrite sx_atom_S. cbn [app]. rewrite (col_tail_dots ps rest Hnf). reflexivity.
Qed.

Definition lp_t := SPunct p_lp. Definition rp_t := SPunct p_rp.
Definition lb_t := SPunct p_lb. Definition rb_t := SPunct p_rb. Definition comma_t := SPunct p_comma.

Lemma stop_rp r : stop (rp_t :: r). Proof. reflexivity. Qed.
Lemma stop_comma r : stop (comma_t :: r). Proof. reflexivity. Qed.
Lemma stop_rb r : stop (rb_t :: r). Proof. reflexivity. Qed.

(** ( e ) *)
Lemma A_paren ts t : Fx ts t -> A (lp_t :: ts ++ [rp_t]) t.
Proof.
  intros [_ HF]. split; [exists lp_t, (ts ++ [rp_t]); repeat split; reflexivity|].
  intros rest _. destruct (HF (rp_t :: rest) (stop_rp _)) as (f0 & Hf).
  exists (S f0). intros f Hle. peel f. rewrite sx_atom_S. cbn [app lp_t]. change (str_eqb p_lp p_lp) with true. cbn iota.
  rewrite <- app_assoc. cbn [app]. rewrite Hf by lia. reflexivity.
Qed.

(** sign e *)
Lemma C_unary (s : str) ts t : (s = p_minus \/ s = p_plus) -> C ts t -> C (SPunct s :: ts) (XUn s t).
Proof.
  intros Hs [_ HC]. split; [exists (SPunct s), ts; split; [reflexivity|destruct Hs; subst; reflexivity]|].
  intros rest minp Hnb. destruct (HC rest 8 Hnb) as (f0 & Hf).
  exists (S f0). intros f Hle. peel f. rewrite sx_prefix_S. cbn [app].
  assert (Hn : is_w k_NOT (SPunct s) = false) by reflexivity. rewrite Hn.
  assert (Hsg : is_p p_minus (SPunct s) || is_p p_plus (SPunct s) = true) by (destruct Hs; subst; reflexivity). rewrite Hsg.
  rewrite Hf by lia. reflexivity.
Qed.

(** x [ i ] *)
Lemma C_index tx x ti i : A tx x -> Fx ti i -> C (tx ++ lb_t :: ti ++ [rb_t]) (XIndex x i).
Proof.
  intros [(t0 & r0 & -> & H1 & H2 & H3 & H4) HA] [_ HF]. split; [exists t0, (r0 ++ lb_t :: ti ++ [rb_t]); auto|].
  intros rest minp Hnb.
  destruct (HA (lb_t :: ti ++ [rb_t] ++ rest)) as (f1 & Hf1); [repeat split; reflexivity|].
  destruct (HF (rb_t :: rest) (stop_rb _)) as (f2 & Hf2).
  exists (f1 + f2 + 4). intros f Hle. peel f. rewrite sx_prefix_S. cbn [app]. rewrite H1, H2, H3. cbn [orb].
  replace (t0 :: (r0 ++ lb_t :: ti ++ [rb_t]) ++ rest) with ((t0 :: r0) ++ lb_t :: ti ++ [rb_t] ++ rest)
    by la.
  rewrite Hf1 by lia. peel f. rewrite sx_postfix_S. cbn [lb_t]. change (is_p p_lb (SPunct p_lb)) with true. cbn iota.
  replace (ti ++ [rb_t] ++ rest) with (ti ++ rb_t :: rest) by reflexivity. rewrite Hf2 by lia.
  change (is_p p_rb rb_t) with true. cbn iota. peel f. apply postfix_stop. exact Hnb.
Qed.

(** arguments: e, e, ... ) *)
Fixpoint join_toks (tl : list (list stok)) : list stok :=
  match tl with
  | [] => []
  | [t] => t
  | t :: r => t ++ comma_t :: join_toks r
  end.

Lemma args_read : forall tl vs, Forall2 Fx tl vs -> tl <> [] -> forall rest,
  Conv (fun f => sx_args f (join_toks tl ++ rp_t :: rest)) (vs, rest).
Proof.
  induction 1 as [|ts v tl vs [(t0 & r0 & -> & Hnrp) HF] Hr IH]; intros Hne rest; [congruence|].
  destruct tl as [|ts2 tl'].
  - inversion Hr; subst. cbn [join_toks]. destruct (HF (rp_t :: rest) (stop_rp _)) as (f0 & Hf).
    exists (S f0). intros f Hle. peel f. rewrite sx_args_S. cbn [app]. rewrite Hnrp.
    change (t0 :: r0 ++ rp_t :: rest) with ((t0 :: r0) ++ rp_t :: rest). rewrite Hf by lia.
    change (is_p p_rp rp_t) with true. reflexivity.
  - destruct vs as [|v2 vs']; [inversion Hr|].
    destruct (IH ltac:(discriminate) rest) as (f2 & Hf2).
    destruct (HF (comma_t :: join_toks (ts2 :: tl') ++ rp_t :: rest) (stop_comma _)) as (f1 & Hf1).
    exists (f1 + f2 + 2). intros f Hle. peel f. rewrite sx_args_S.
    change (join_toks ((t0 :: r0) :: ts2 :: tl')) with ((t0 :: r0) ++ comma_t :: join_toks (ts2 :: tl')).
    rewrite <- app_assoc. cbn [app]. rewrite Hnrp.
    change (t0 :: r0 ++ comma_t :: join_toks (ts2 :: tl') ++ rp_t :: rest) with ((t0 :: r0) ++ comma_t :: join_toks (ts2 :: tl') ++ rp_t :: rest).
    rewrite Hf1 by lia. change (is_p p_rp comma_t) with false. change (is_p p_comma comma_t) with true. cbn iota.
    rewrite Hf2 by lia. reflexivity.
Qed.

(** name ( args ) for a pass-through or rewritten function with at least one argument *)
Lemma A_call w tl vs : plain_word w -> Forall2 Fx tl vs -> tl <> [] -> A (SWord w :: lp_t :: join_toks tl ++ [rp_t]) (XCall w vs).
Proof.
  intros [H1 H2] Hall Hne. split; [exists (SWord w), (lp_t :: join_toks tl ++ [rp_t]); repeat split; try reflexivity; exact H1|].
  intros rest Hnf. destruct (args_read tl vs Hall Hne rest) as (f0 & Hf).
  assert (Hvs : vs <> []) by (destruct Hall; [congruence|discriminate]).
  assert (Hhd : exists t0 r0, join_toks tl = t0 :: r0 /\ is_p p_rp t0 = false /\ (is_p p_star t0 = false \/ exists t1 r1, r0 ++ rp_t :: rest = t1 :: r1 /\ is_p p_rp t1 = false) ).
  { destruct Hall as [|ts v tl' vs' [(t0 & r0 & -> & Hnrp) HF] Hr]; [congruence|]. destruct tl' as [|ts2 tl''].
    - exists t0, r0. split; [reflexivity|]. split; [exact Hnrp|].
      destruct (is_p p_star t0) eqn:Est; [|left; reflexivity]. right.
      (* a lone `*` cannot be an expression *)
      exfalso. destruct (HF [] I) as (f1 & Hf1). specialize (Hf1 (S (S (S f1))) ltac:(lia)).
      rewrite sx_S, sx_prefix_S in Hf1. cbn [app] in Hf1.
      destruct t0 as [s|s|s|s|s|s]; try discriminate Est. unfold is_p in Est. apply str_eqb_eq in Est. subst s.
      change (is_w k_NOT (SPunct p_star)) with false in Hf1. change (is_p p_minus (SPunct p_star) || is_p p_plus (SPunct p_star)) with false in Hf1.
      cbn iota in Hf1. rewrite sx_atom_S in Hf1. change (str_eqb p_star p_lp) with false in Hf1. discriminate Hf1.
    - exists t0, (r0 ++ comma_t :: join_toks (ts2 :: tl'')). split; [reflexivity|]. split; [exact Hnrp|].
      destruct (is_p p_star t0) eqn:Est; [|left; reflexivity]. right.
      exfalso. destruct (HF [] I) as (f1 & Hf1). specialize (Hf1 (S (S (S f1))) ltac:(lia)).
      rewrite sx_S, sx_prefix_S in Hf1. cbn [app] in Hf1.
      destruct t0 as [s|s|s|s|s|s]; try discriminate Est. unfold is_p in Est. apply str_eqb_eq in Est. subst s.
      change (is_w k_NOT (SPunct p_star)) with false in Hf1. change (is_p p_minus (SPunct p_star) || is_p p_plus (SPunct p_star)) with false in Hf1.
      cbn iota in Hf1. rewrite sx_atom_S in Hf1. change (str_eqb p_star p_lp) with false in Hf1. discriminate Hf1. }
  destruct Hhd as (t0 & r0 & Hj & Hnrp & Hstar).
  exists (S (S f0)). intros f Hle. peel f. rewrite sx_atom_S. cbn [app]. rewrite H2.
  change (is_p p_lp lp_t) with true. cbn iota.
  replace ((join_toks tl ++ [rp_t]) ++ rest) with (join_toks tl ++ rp_t :: rest) by (rewrite <- app_assoc; reflexivity).
  assert (Hcall : sx_call f w (join_toks tl ++ rp_t :: rest) = Some (XCall w vs, rest)).
  { peel f. rewrite sx_call_S. rewrite Hf by lia. destruct vs as [|v0 vs0]; [congruence|]. reflexivity. }
  rewrite Hj in *. cbn [app] in *.
  destruct Hstar as [Hst|(t1 & r1 & Heq & Hn1)].
  - destruct (r0 ++ rp_t :: rest) as [|t1 r1] eqn:Er; [exact Hcall|]. rewrite Hst. cbn [andb]. exact Hcall.
  - rewrite Heq in *. rewrite Hn1, Bool.andb_false_r. exact Hcall.
Qed.

(** name ( ) *)
Lemma A_call0 w : plain_word w -> A [SWord w; lp_t; rp_t] (XCall w []).
Proof.
  intros [H1 H2]. split; [exists (SWord w), [lp_t; rp_t]; repeat split; try reflexivity; exact H1|].
  intros rest Hnf. exists 3. intros f Hle. peel f. rewrite sx_atom_S. cbn [app]. rewrite H2.
  change (is_p p_lp lp_t) with true. cbn iota.
  assert (Hcall : sx_call f w (rp_t :: rest) = Some (XCall w [], rest)).
  { peel f. rewrite sx_call_S. peel f. rewrite sx_args_S. change (is_p p_rp rp_t) with true. cbn iota.
    destruct rest as [|fl [|lp [|wh r1]]]; try reflexivity.
    cbn in Hnf. destruct Hnf as (_ & Hfl & _). rewrite Hfl. rewrite Bool.andb_false_r. reflexivity. }
  destruct rest as [|t1 r1]; [exact Hcall|]. change (is_p p_star rp_t) with false. exact Hcall.
Qed.

(** count() FILTER (WHERE c) *)
Lemma A_countif tc c : Fx tc c ->
  A (SWord k_count :: lp_t :: rp_t :: SWord k_FILTER :: lp_t :: SWord k_WHERE :: tc ++ [rp_t]) (XCountIf c).
Proof.
  intros [_ HF]. split; [eexists _, _; repeat split; reflexivity|].
  intros rest _. destruct (HF (rp_t :: rest) (stop_rp _)) as (f0 & Hf).
  exists (f0 + 4). intros f Hle. peel f. rewrite sx_atom_S. cbn [app].
  change (str_eqb (map upper_c k_count) k_CASE) with false. cbn iota.
  change (is_p p_lp lp_t) with true. cbn iota. change (is_p p_star rp_t) with false. cbn [andb].
  peel f. rewrite sx_call_S. peel f. rewrite sx_args_S. change (is_p p_rp rp_t) with true. cbn iota.
  change (str_eqb k_count k_count && is_w k_FILTER (SWord k_FILTER) && is_p p_lp lp_t && is_w k_WHERE (SWord k_WHERE)) with true. cbn iota.
  rewrite <- app_assoc. cbn [app]. rewrite Hf by lia. change (is_p p_rp rp_t) with true. reflexivity.
Qed.

(** CASE WHEN c THEN t ELSE e END *)
Lemma stop_then r : stop (SWord k_THEN :: r). Proof. reflexivity. Qed.
Lemma stop_else r : stop (SWord k_ELSE :: r). Proof. reflexivity. Qed.
Lemma stop_end r : stop (SWord k_END :: r). Proof. reflexivity. Qed.

Lemma A_case tc c tt t te e : Fx tc c -> Fx tt t -> Fx te e ->
  A (SWord k_CASE :: SWord k_WHEN :: tc ++ SWord k_THEN :: tt ++ SWord k_ELSE :: te ++ [SWord k_END]) (XCase c t e).
Proof.
  intros [_ H1] [_ H2] [_ H3]. split; [eexists _, _; repeat split; reflexivity|].
  intros rest _.
  destruct (H1 (SWord k_THEN :: tt ++ SWord k_ELSE :: te ++ [SWord k_END] ++ rest) (stop_then _)) as (f1 & Hf1).
  destruct (H2 (SWord k_ELSE :: te ++ [SWord k_END] ++ rest) (stop_else _)) as (f2 & Hf2).
  destruct (H3 (SWord k_END :: rest) (stop_end _)) as (f3 & Hf3).
  exists (f1 + f2 + f3 + 2). intros f Hle. peel f. rewrite sx_atom_S. cbn [app].
  change (str_eqb (map upper_c k_CASE) k_CASE) with true. cbn iota.
  change (is_w k_WHEN (SWord k_WHEN)) with true. cbn iota.
  replace ((tc ++ SWord k_THEN :: tt ++ SWord k_ELSE :: te ++ [SWord k_END]) ++ rest)
    with (tc ++ SWord k_THEN :: tt ++ SWord k_ELSE :: te ++ [SWord k_END] ++ rest) by la.
  rewrite Hf1 by lia. change (is_w k_THEN (SWord k_THEN)) with true. cbn iota.
  rewrite Hf2 by lia. change (is_w k_ELSE (SWord k_ELSE)) with true. cbn iota.
  change (te ++ [SWord k_END] ++ rest) with (te ++ SWord k_END :: rest). rewrite Hf3 by lia.
  change (is_w k_END (SWord k_END)) with true. reflexivity.
Qed.

(** x op y *)
Lemma Fx_bin tx x ty y op lvl name : C tx x -> C ty y -> bin_level op = Some (lvl, name) ->
  is_w k_IS op = false -> is_w k_IN op = false -> is_p p_lp op = false -> is_w k_FILTER op = false -> is_p p_dot op = false -> is_p p_lb op = false ->
  Fx (tx ++ op :: ty) (XBin name x y).
Proof.
  intros [(t0 & r0 & -> & Hn0) HCx] HCy Hlvl Ho1 Ho2 Ho3 Ho4 Ho5 Ho6. split; [exists t0, (r0 ++ op :: ty); auto|].
  intros rest Hs.
  destruct (HCx (op :: ty ++ rest) 0) as (f1 & Hf1); [cbn; auto|].
  destruct (C_E ty y HCy rest (S lvl) Hs) as (f2 & Hf2).
  exists (f1 + f2 + 4). intros f Hle. peel f. rewrite sx_S.
  replace (((t0 :: r0) ++ op :: ty) ++ rest) with ((t0 :: r0) ++ op :: ty ++ rest) by la.
  rewrite Hf1 by lia. peel f. rewrite sx_loop_S. rewrite Ho1, Ho2, Hlvl. cbn [Nat.leb].
  rewrite Hf2 by lia. peel f. apply loop_stop. exact Hs.
Qed.

(** NOT x *)
Lemma Fx_not tx x : C tx x -> Fx (SWord k_NOT :: tx) (XNot x).
Proof.
  intros HC. split; [eexists _, _; split; reflexivity|]. intros rest Hs.
  destruct (C_E tx x HC rest 3 Hs) as (f1 & Hf1).
  exists (f1 + 3). intros f Hle. peel f. rewrite sx_S. peel f. rewrite sx_prefix_S. cbn [app].
  change (is_w k_NOT (SWord k_NOT)) with true. cbn iota. cbn [Nat.leb]. rewrite Hf1 by lia.
  peel f. apply loop_stop. exact Hs.
Qed.

(** x IS [NOT] NULL *)
Lemma Fx_isnull (neg : bool) tx x : C tx x ->
  Fx (tx ++ SWord k_IS :: (if neg then [SWord k_NOT; SWord k_NULL] else [SWord k_NULL])) (XIsNull neg x).
Proof.
  intros [(t0 & r0 & -> & Hn0) HC]. split; [eexists _, _; split; [reflexivity|exact Hn0]|]. intros rest Hs.
  destruct (HC (SWord k_IS :: (if neg then [SWord k_NOT; SWord k_NULL] else [SWord k_NULL]) ++ rest) 0) as (f1 & Hf1); [cbn; auto|].
  exists (f1 + 4). intros f Hle. peel f. rewrite sx_S.
  replace (((t0 :: r0) ++ SWord k_IS :: (if neg then [SWord k_NOT; SWord k_NULL] else [SWord k_NULL])) ++ rest)
    with ((t0 :: r0) ++ SWord k_IS :: (if neg then [SWord k_NOT; SWord k_NULL] else [SWord k_NULL]) ++ rest) by la.
  rewrite Hf1 by lia. peel f. rewrite sx_loop_S. change (is_w k_IS (SWord k_IS)) with true. cbn iota. cbn [Nat.leb].
  destruct neg; cbn [app].
  - change (is_w k_NULL (SWord k_NOT)) with false. change (is_w k_NOT (SWord k_NOT)) with true. cbn iota.
    change (is_w k_NULL (SWord k_NULL)) with true. cbn iota. peel f. apply loop_stop. exact Hs.
  - change (is_w k_NULL (SWord k_NULL)) with true. cbn iota. peel f. apply loop_stop. exact Hs.
Qed.

(** x IN ( v, ... ) *)
Lemma Fx_in tx x tl vs : C tx x -> Forall2 Fx tl vs -> tl <> [] ->
  Fx (tx ++ SWord k_IN :: lp_t :: join_toks tl ++ [rp_t]) (XIn x vs).
Proof.
  intros [(t0 & r0 & -> & Hn0) HC] Hall Hne. split; [eexists _, _; split; [reflexivity|exact Hn0]|]. intros rest Hs.
  destruct (HC (SWord k_IN :: lp_t :: join_toks tl ++ rp_t :: rest) 0) as (f1 & Hf1); [cbn; auto|].
  destruct (args_read tl vs Hall Hne rest) as (f2 & Hf2).
  assert (Hvs : vs <> []) by (destruct Hall; [congruence|discriminate]).
  exists (f1 + f2 + 4). intros f Hle. peel f. rewrite sx_S.
  replace (((t0 :: r0) ++ SWord k_IN :: lp_t :: join_toks tl ++ [rp_t]) ++ rest)
    with ((t0 :: r0) ++ SWord k_IN :: lp_t :: join_toks tl ++ rp_t :: rest) by la.
  rewrite Hf1 by lia. peel f. rewrite sx_loop_S. change (is_w k_IS (SWord k_IN)) with false. change (is_w k_IN (SWord k_IN)) with true.
  cbn iota. cbn [Nat.leb]. change (is_p p_lp lp_t) with true. cbn iota. rewrite Hf2 by lia.
  destruct vs as [|v0 vs0]; [congruence|]. peel f. apply loop_stop. exact Hs.
Qed.

(** a || b || c  (left-associative chain) *)
Definition cat_t := SPunct (L "||").
Lemma chain_loop : forall tbs bs, Forall2 C tbs bs -> forall acc rest, stop rest ->
  Conv (fun f => sx_loop f 0 acc (flat_map (fun tb => cat_t :: tb) tbs ++ rest)) (fold_left (fun a b => XBin (L "||") a b) bs acc, rest).
Proof.
  induction 1 as [|tb b tbs bs HC Hr IH]; intros acc rest Hs.
  - exists 1. intros f Hle. peel f. cbn [flat_map app fold_left]. apply loop_stop. exact Hs.
  - cbn [flat_map fold_left].
    destruct (IH (XBin (L "||") acc b) rest Hs) as (f2 & Hf2).
    destruct HC as [_ HCb].
    (* the operand is followed by the next || or by the stop token *)
    assert (Hnext : nb (flat_map (fun tb => cat_t :: tb) tbs ++ rest)).
    { destruct tbs; cbn [flat_map app]; [apply stop_nb; exact Hs|cbn; auto]. }
    destruct (HCb _ 6 Hnext) as (f1 & Hf1).
    exists (f1 + f2 + 3). intros f Hle. peel f. rewrite sx_loop_S.
    rewrite <- app_assoc. cbn [app].
    change (is_w k_IS cat_t) with false. change (is_w k_IN cat_t) with false. cbn iota.
    change (bin_level cat_t) with (Some (5, L "||")). cbn iota. cbn [Nat.leb].
    peel f. rewrite sx_S. rewrite Hf1 by lia.
    (* the inner loop at level 6 stops at the next || (level 5) or at the stop token *)
    assert (Hinner : forall g, sx_loop (S g) 6 b (flat_map (fun tb0 => cat_t :: tb0) tbs ++ rest) = Some (b, flat_map (fun tb0 => cat_t :: tb0) tbs ++ rest)).
    { intros g. destruct tbs as [|tb2 tbs']; cbn [flat_map app]; [apply loop_stop; exact Hs|].
      rewrite sx_loop_S. change (is_w k_IS cat_t) with false. change (is_w k_IN cat_t) with false. cbn iota.
      change (bin_level cat_t) with (Some (5, L "||")). reflexivity. }
    peel f. rewrite Hinner. apply Hf2. lia.
Qed.

Lemma Fx_chain ta a tbs bs : C ta a -> Forall2 C tbs bs ->
  Fx (ta ++ flat_map (fun tb => cat_t :: tb) tbs) (fold_left (fun x y => XBin (L "||") x y) bs a).
Proof.
  intros [(t0 & r0 & -> & Hn0) HC] Hall. split; [eexists _, _; split; [reflexivity|exact Hn0]|]. intros rest Hs.
  assert (Hnext : nb (flat_map (fun tb => cat_t :: tb) tbs ++ rest)).
  { destruct tbs; cbn [flat_map app]; [apply stop_nb; exact Hs|cbn; auto]. }
  destruct (HC _ 0 Hnext) as (f1 & Hf1).
  destruct (chain_loop tbs bs Hall a rest Hs) as (f2 & Hf2).
  exists (f1 + f2 + 2). intros f Hle. peel f. rewrite sx_S. rewrite <- app_assoc. rewrite Hf1 by lia. apply Hf2. lia.
Qed.

(** ** the printed pieces as tokens *)
Definition ptok (p : piece) : option (list stok) :=
  match p with
  | PLit s => sql_lex ClickHouse s
  | PIdent n => Some [SQuoted n]
  | PStr v => Some [SString v]
  | PNum v => Some [SNumber v]
  | PFunc n => Some [SWord n]
  | PRaw _ | PHole _ => None
  end.

Fixpoint ptoks (ps : list piece) : option (list stok) :=
  match ps with
  | [] => Some []
  | p :: r => match ptok p, ptoks r with Some a, Some b => Some (a ++ b) | _, _ => None end
  end.

Lemma ptoks_app a b ta tb : ptoks a = Some ta -> ptoks b = Some tb -> ptoks (a ++ b) = Some (ta ++ tb).
Proof.
  revert ta. induction a as [|p r IH]; intros ta Ha Hb; cbn [ptoks app] in *.
  - injection Ha as <-. exact Hb.
  - destruct (ptok p) as [tp|]; [|discriminate]. destruct (ptoks r) as [tr|] eqn:Er; [|discriminate].
    injection Ha as <-. rewrite (IH tr eq_refl Hb). rewrite app_assoc. reflexivity.
Qed.

Lemma ptoks_cons_lit s ts b tb : sql_lex ClickHouse s = Some ts -> ptoks b = Some tb -> ptoks (PLit s :: b) = Some (ts ++ tb).
Proof. intros H1 H2. cbn [ptoks ptok]. rewrite H1, H2. reflexivity. Qed.

(** ** well-formed trees (what the parser builds), minus finding F1 *)
Fixpoint wfr (e : expr) : Prop :=
  match e with
  | EQual ps => ps <> []
  | ELit _ k _ => k = KNumber \/ k = KString
  | EUnary _ op x => (op = KPlus \/ op = KMinus) /\ wfr x
  | EBin x _ op y => binop_handled op = true /\ op <> KIn /\ wfr x /\ wfr y
  | EIn x _ _ vs _ => wfr x /\ vs <> [] /\ (fix all (l : list expr) : Prop := match l with [] => True | a :: r => wfr a /\ all r end) vs
  | EParen _ x _ => wfr x
  | ECall f _ args _ =>
    (known_func (iname f) = None -> plain_word (iname f)) /\
    (fix all (l : list expr) : Prop := match l with [] => True | a :: r => wfr a /\ all r end) args
  | EIndex x _ i _ => wfr x /\ wfr i
  end.

Lemma wfr_all l : (fix all (l : list expr) : Prop := match l with [] => True | a :: r => wfr a /\ all r end) l <-> Forall wfr l.
Proof. induction l as [|a r IH]; [split; [constructor|auto]|]. split; [intros [H1 H2]; constructor; [exact H1|apply IH; exact H2]|intros H; inversion H; subst; split; [assumption|apply IH; assumption]]. Qed.

(** the required shape of a written operand *)
Definition Shape (w : wrap) (ts : list stok) (t : sexpr) : Prop :=
  match w with WOperand => A ts t | WMaybe => C ts t | WPlain => Fx ts t end.

Lemma A_Fx ts t : A ts t -> Fx ts t.
Proof. intros H. apply C_Fx, A_C, H. Qed.

(** wrapping: a body that is a full expression, closed when not complex, an atom when moreover not signed *)
Lemma shape_wrap w (complex_e unary_e : bool) tsb t :
  Fx tsb t -> (complex_e = false -> C tsb t) -> (complex_e = false -> unary_e = false -> A tsb t) ->
  let wrapped := match w with WPlain => false | WMaybe => complex_e | WOperand => unary_e || complex_e end in
  Shape w (if wrapped then lp_t :: tsb ++ [rp_t] else tsb) t.
Proof.
  intros HF HC HA. destruct w; cbn.
  - exact HF.
  - destruct complex_e; [apply A_C, A_paren; exact HF|apply HC; reflexivity].
  - destruct unary_e, complex_e; cbn; try (apply A_paren; exact HF). apply HA; reflexivity.
Qed.

(** literal templates as tokens *)
Lemma lex_lp : sql_lex ClickHouse (L "(") = Some [lp_t]. Proof. reflexivity. Qed.
Lemma lex_rp : sql_lex ClickHouse (L ")") = Some [rp_t]. Proof. reflexivity. Qed.

Lemma ptoks_paren b tb : ptoks b = Some tb -> ptoks (lit "(" ++ b ++ lit ")") = Some (lp_t :: tb ++ [rp_t]).
Proof.
  intros H. change (lit "(" ++ b ++ lit ")") with (PLit (L "(") :: b ++ lit ")").
  rewrite (ptoks_cons_lit (L "(") [lp_t] (b ++ lit ")") (tb ++ [rp_t]) lex_lp); [reflexivity|].
  apply ptoks_app; [exact H|reflexivity].
Qed.

(** built-in constants *)
Lemma builtin_word n w : assoc_str builtin_idents n = Some w -> sql_lex ClickHouse w = Some [SWord w] /\ plain_word w.
Proof.
  unfold builtin_idents. cbn [assoc_str]. 
  repeat match goal with |- context [if str_eqb ?a ?b then _ else _] => destruct (str_eqb a b) end;
    try discriminate; intros [= <-]; split; vm_compute; auto.
Qed.

(** binary operators of the table *)
Lemma binop_tok op s : binop_sql op = Some s ->
  exists tok lvl, sql_lex ClickHouse s = Some [tok] /\ bin_level tok = Some (lvl, s) /\ is_w k_IS tok = false /\ is_w k_IN tok = false
    /\ is_p p_lp tok = false /\ is_w k_FILTER tok = false /\ is_p p_dot tok = false /\ is_p p_lb tok = false.
Proof.
  destruct op; cbn [binop_sql]; try discriminate; intros [= <-]; eexists _, _; vm_compute; repeat split; reflexivity.
Qed.

(** ** the writer's output, constructor by constructor *)
Lemma bind_ok {X Y} (r : res X) (k : X -> res Y) y : bind r k = Ok y -> exists x, r = Ok x /\ k x = Ok y.
Proof. destruct r as [x|p]; cbn [bind]; [eauto|discriminate]. Qed.

Lemma sequence_ok {X} : forall (l : list (res X)) xs, sequence l = Ok xs -> Forall2 (fun r x => r = Ok x) l xs.
Proof.
  induction l as [|r l IH]; intros xs; cbn [sequence]; [intros [= <-]; constructor|].
  intros H. apply bind_ok in H as (x & -> & H). apply bind_ok in H as (tl & Htl & [= <-]). constructor; [reflexivity|apply IH; exact Htl].
Qed.

Lemma join_pieces_toks : forall pl tl, Forall2 (fun p t => ptoks p = Some t) pl tl ->
  ptoks (join_pieces (lit ", ") pl) = Some (join_toks tl).
Proof.
  induction 1 as [|p t pl tl Hp Hr IH]; [reflexivity|].
  destruct pl as [|p2 pl']; inversion Hr; subst; cbn [join_pieces join_toks]; [exact Hp|].
  apply ptoks_app; [exact Hp|]. change (lit ", " ++ join_pieces (lit ", ") (p2 :: pl')) with (PLit (L ", ") :: join_pieces (lit ", ") (p2 :: pl')).
  apply (ptoks_cons_lit (L ", ") [comma_t]); [reflexivity|exact IH].
Qed.

(** replace every bound name by the tree of its value *)
Fixpoint substv (vals : str -> sexpr) (e : sexpr) {struct e} : sexpr :=
  match e with
  | XBound n => vals n
  | XCol _ | XWord _ | XNum _ | XStr _ => e
  | XUn op x => XUn op (substv vals x)
  | XNot x => XNot (substv vals x)
  | XBin op x y => XBin op (substv vals x) (substv vals y)
  | XIsNull n x => XIsNull n (substv vals x)
  | XIn x vs => XIn (substv vals x) (map (substv vals) vs)
  | XIndex x i => XIndex (substv vals x) (substv vals i)
  | XCall f args => XCall f (map (substv vals) args)
  | XCountIf c => XCountIf (substv vals c)
  | XCase c t e' => XCase (substv vals c) (substv vals t) (substv vals e')
  end.

Lemma substv_fold vals bs : forall a, substv vals (fold_left (fun acc b => XBin w_concat acc b) bs a)
  = fold_left (fun x y => XBin (L "||") x y) (map (substv vals) bs) (substv vals a).
Proof. induction bs as [|b r IH]; intros a; [reflexivity|]. cbn [fold_left map]. rewrite IH. reflexivity. Qed.

Section Writer.
Variable c : ctx.
Variable vals : str -> sexpr.           (* the tree of each bound name's value *)
(** every binding in scope was written as an atom-like operand of its value's tree *)
Hypothesis scope_ok : forall n ps, scope_get (c_scope c) n = Some ps -> exists ts, ptoks ps = Some ts /\ A ts (vals n).
Let jm := mode_eqb (c_mode c) ModeJoin.
Let isb (n : str) : bool := match scope_get (c_scope c) n with Some _ => true | None => false end.
Let T (e : expr) : sexpr := substv vals (trans isb jm e).

Ltac fold_T :=
  try rewrite !map_map;
  repeat match goal with
  | |- context [map (fun x => substv vals (trans isb jm x)) ?l] => change (map (fun x => substv vals (trans isb jm x)) l) with (map T l)
  | |- context [substv vals (trans isb jm ?x)] => change (substv vals (trans isb jm x)) with (T x)
  end.

Lemma write_parts_toks m : forall ps pcs, write_parts m false ps = Ok pcs -> ptoks pcs = Some (dots (map iname ps)).
Proof.
  induction ps as [|p r IH]; intros pcs; cbn [write_parts]; [intros [= <-]; reflexivity|].
  destruct (ident_is_alias p && negb (mode_eqb m ModeJoin)); [discriminate|].
  intros H. apply bind_ok in H as (tl & Htl & [= <-]). cbn [map dots].
  change (lit "." ++ PIdent (iname p) :: tl) with (PLit (L ".") :: PIdent (iname p) :: tl).
  cbn [ptoks ptok]. change (sql_lex ClickHouse (L ".")) with (Some [SPunct p_dot]). rewrite (IH _ Htl). reflexivity.
Qed.

Lemma write_parts_first m p r pcs : write_parts m true (p :: r) = Ok pcs -> ptoks pcs = Some (SQuoted (iname p) :: dots (map iname r)).
Proof.
  cbn [write_parts]. destruct (ident_is_alias p && negb (mode_eqb m ModeJoin)); [discriminate|].
  intros H. apply bind_ok in H as (tl & Htl & [= <-]). cbn [app ptoks ptok]. rewrite (write_parts_toks m _ _ Htl). reflexivity.
Qed.

(** the three facts a body must provide *)
Definition Body (e : expr) (tsb : list stok) (t : sexpr) : Prop :=
  Fx tsb t /\ (complex e = false -> C tsb t) /\ (complex e = false -> (forall a b x, e <> EUnary a b x) -> A tsb t).

Lemma body_of_A e ts t : A ts t -> Body e ts t.
Proof. intros H. split; [apply A_Fx; exact H|]. split; [intros _; apply A_C; exact H|intros _ _; exact H]. Qed.
Lemma body_of_Fx e ts t : complex e = true -> Fx ts t -> Body e ts t.
Proof. intros Hc H. split; [exact H|]. split; intros Hc'; rewrite Hc in Hc'; discriminate. Qed.
Lemma body_of_Fx_ex e (b : list piece) t : complex e = true -> (exists ts, ptoks b = Some ts /\ Fx ts t) -> exists ts, ptoks b = Some ts /\ Body e ts t.
Proof. intros Hc (ts & H1 & H2). exists ts. split; [exact H1|apply body_of_Fx; assumption]. Qed.

Lemma wrap_shape w e (body : res (list piece)) ps t :
  (if needs_wrap w e then do b <- body; Ok (lit "(" ++ b ++ lit ")") else body) = Ok ps ->
  (forall b, body = Ok b -> exists tsb, ptoks b = Some tsb /\ Body e tsb t) ->
  (forall l x r, e <> EParen l x r) ->
  exists ts, ptoks ps = Some ts /\ Shape w ts t.
Proof.
  intros H Hb Hnp. destruct (needs_wrap w e) eqn:Ew.
  - apply bind_ok in H as (b & Hbody & [= <-]). destruct (Hb b Hbody) as (tsb & Hp & HF & _).
    exists (lp_t :: tsb ++ [rp_t]). split; [apply ptoks_paren; exact Hp|].
    destruct w; cbn [Shape]; [apply A_Fx|apply A_C|]; apply A_paren; exact HF.
  - destruct (Hb ps H) as (tsb & Hp & HF & HC & HA). exists tsb. split; [exact Hp|].
    destruct w; cbn [Shape needs_wrap] in *; [exact HF|apply HC; exact Ew|].
    destruct e; try (apply HA; [exact Ew|intros; discriminate]); try discriminate Ew.
Qed.

Lemma qual_body ps w pcs : ps <> [] -> wx c w (EQual ps) = Ok pcs -> exists ts, ptoks pcs = Some ts /\ Shape w ts (T (EQual ps)).
Proof.
  intros Hne. cbn [wx]. intros H. eapply wrap_shape; [exact H| |intros; discriminate]. clear H.
  intros b Hb.
  assert (Hgen : forall p r, write_parts (c_mode c) true (p :: r) = Ok b ->
            exists tsb, ptoks b = Some tsb /\ Body (EQual ps) tsb (XCol (map iname (p :: r)))).
  { intros p r Hw. eexists. split; [eapply write_parts_first; exact Hw|]. apply body_of_A. apply A_col. }
  destruct ps as [|p [|p2 r]]; [congruence| |].
  - unfold T. cbn [trans]. destruct (iquoted p) eqn:Eq; cbn [negb andb] in *.
    + cbn [substv]. destruct (mode_eqb (c_mode c) ModeLet); [discriminate|]. apply (Hgen p []). exact Hb.
    + unfold isb. destruct (scope_get (c_scope c) (iname p)) as [sql|] eqn:Es.
      * injection Hb as <-. cbn [substv]. destruct (scope_ok _ _ Es) as (ts & Hts & HA). exists ts. split; [exact Hts|]. apply body_of_A. exact HA.
      * destruct (assoc_str builtin_idents (iname p)) as [sql|] eqn:Eb; cbn [substv].
        { injection Hb as <-. destruct (builtin_word _ _ Eb) as [Hlex Hpw]. exists [SWord sql]. split.
          { cbn [ptoks ptok]. rewrite Hlex. reflexivity. }
          apply body_of_A. apply A_word. exact Hpw. }
        destruct (mode_eqb (c_mode c) ModeLet); [discriminate|]. apply (Hgen p []). exact Hb.
  - unfold T. cbn [trans substv]. destruct (mode_eqb (c_mode c) ModeLet); [discriminate|]. apply (Hgen p (p2 :: r)). exact Hb.
Qed.

Lemma lit_body sp k v w pcs : (k = KNumber \/ k = KString) -> wx c w (ELit sp k v) = Ok pcs ->
  exists ts, ptoks pcs = Some ts /\ Shape w ts (T (ELit sp k v)).
Proof.
  intros Hk. cbn [wx]. intros H. eapply wrap_shape; [exact H| |intros; discriminate]. clear H.
  intros b Hb. destruct Hk as [-> | ->]; injection Hb as <-; unfold T; cbn [trans substv].
  - exists [SNumber v]. split; [reflexivity|apply body_of_A, A_num].
  - exists [SString v]. split; [reflexivity|apply body_of_A, A_str].
Qed.

Lemma ptoks_app_eq a b : ptoks (a ++ b) = match ptoks a, ptoks b with Some x, Some y => Some (x ++ y) | _, _ => None end.
Proof.
  induction a as [|p r IH]; cbn [app ptoks]; [destruct (ptoks b); reflexivity|].
  rewrite IH. destruct (ptok p), (ptoks r), (ptoks b); try reflexivity. rewrite app_assoc. reflexivity.
Qed.

Ltac lexall :=
  repeat match goal with
  | |- context [sql_lex ClickHouse ?s] =>
      let r := eval vm_compute in (sql_lex ClickHouse s) in progress change (sql_lex ClickHouse s) with r
  end.

(** compute the tokens of a pieces expression built from literals and pieces with known tokens *)
Ltac ptk :=
  unfold lit in *; cbn [app];
  repeat (rewrite ?ptoks_app_eq; cbn [ptoks ptok]);
  lexall;
  repeat match goal with H : ptoks ?p = Some _ |- context [ptoks ?p] => rewrite H end;
  cbn iota beta; f_equal; cbn [join_toks flat_map]; la.

Lemma Forall2_seq w : forall l pl, Forall (fun x => wfr x -> forall w ps, wx c w x = Ok ps -> exists ts, ptoks ps = Some ts /\ Shape w ts (T x)) l ->
  Forall wfr l -> Forall2 (fun r x => r = Ok x) (map (wx c w) l) pl ->
  exists tl, Forall2 (fun p t => ptoks p = Some t) pl tl /\ Forall2 (Shape w) tl (map T l).
Proof.
  induction l as [|a l IH]; intros pl HI Hw H.
  - inversion H; subst. exists []. split; constructor.
  - cbn [map] in H. inversion H as [|r x rl xl Hrx Hrest]; subst.
    inversion HI as [|a0 l0 Ha Hl]; subst. inversion Hw as [|a1 l1 Hwa Hwl]; subst.
    destruct (Ha Hwa w _ Hrx) as (ta & Hpa & Hsa). destruct (IH _ Hl Hwl Hrest) as (tl & H1 & H2').
    exists (ta :: tl). split; constructor; assumption.
Qed.

Lemma Forall2_impl {X Y} (P Q : X -> Y -> Prop) l1 l2 : (forall x y, P x y -> Q x y) -> Forall2 P l1 l2 -> Forall2 Q l1 l2.
Proof. intros H F. induction F; constructor; auto. Qed.

Lemma Forall2_ne {X Y} (P : X -> Y -> Prop) l1 l2 : Forall2 P l1 l2 -> l2 <> [] -> l1 <> [].
Proof. intros F. destruct F; [congruence|discriminate]. Qed.

Lemma assoc_str_In {X} (l : list (str * X)) n v : assoc_str l n = Some v -> In v (map snd l).
Proof.
  induction l as [|[k x] r IH]; cbn [assoc_str]; [discriminate|].
  destruct (str_eqb k n); [intros [= <-]; left; reflexivity|intros H; right; apply IH; exact H].
Qed.

Lemma known_func_cases n wr np : known_func n = Some (wr, np) -> In (wr, np) (map snd known_funcs).
Proof. apply assoc_str_In. Qed.

Ltac unbind H :=
  match type of H with
  | bind _ _ = Ok _ =>
      let x := fresh "p" in let Hx := fresh "Hq" in
      apply bind_ok in H as (x & Hx & H); unbind Hx; unbind H
  | Ok _ = Ok _ => injection H as <-
  | _ => idtac
  end.

Lemma flat_pieces_toks : forall pl tl, Forall2 (fun p t => ptoks p = Some t) pl tl ->
  ptoks (flat_map (fun a0 : list piece => PLit [32%N; 124%N; 124%N; 32%N] :: a0) pl) = Some (flat_map (fun tb => cat_t :: tb) tl).
Proof.
  induction 1 as [|p t pl tl Hp Hr IH]; [reflexivity|]. cbn [flat_map].
  apply (ptoks_app (PLit [32%N; 124%N; 124%N; 32%N] :: p) _ (cat_t :: t)); [|exact IH].
  cbn [ptoks ptok]. change (sql_lex ClickHouse [32%N; 124%N; 124%N; 32%N]) with (Some [cat_t]). rewrite Hp. reflexivity.
Qed.

Theorem wx_reads : forall e, wfr e -> forall w ps, wx c w e = Ok ps -> exists ts, ptoks ps = Some ts /\ Shape w ts (T e).
Proof.
  induction e using expr_ind'; intros Hwf w pcs Hx.
  - (* names *) apply qual_body; assumption.
  - (* binary operators *)
    cbn [wfr] in Hwf. destruct Hwf as (Hop & Hnin & Hw1 & Hw2).
    cbn [wx] in Hx. eapply wrap_shape; [exact Hx| |intros; discriminate]. clear Hx. intros b Hb.
    assert (Hmaybe : forall b', (do px <- wx c WMaybe e1; do py <- wx c WMaybe e2; b' px py) = Ok b ->
              exists px py tx ty, b' px py = Ok b /\ ptoks px = Some tx /\ ptoks py = Some ty /\ C tx (T e1) /\ C ty (T e2)).
    { intros b' Hb'. apply bind_ok in Hb' as (px & Hpx & Hb'). apply bind_ok in Hb' as (py & Hpy & Hb').
      destruct (IHe1 Hw1 WMaybe px Hpx) as (tx & Htx & Hsx). destruct (IHe2 Hw2 WMaybe py Hpy) as (ty & Hty & Hsy).
      exists px, py, tx, ty. auto. }
    assert (Hplain : forall b', (do px <- wx c WPlain e1; do py <- wx c WPlain e2; b' px py) = Ok b ->
              exists px py tx ty, b' px py = Ok b /\ ptoks px = Some tx /\ ptoks py = Some ty /\ Fx tx (T e1) /\ Fx ty (T e2)).
    { intros b' Hb'. apply bind_ok in Hb' as (px & Hpx & Hb'). apply bind_ok in Hb' as (py & Hpy & Hb').
      destruct (IHe1 Hw1 WPlain px Hpx) as (tx & Htx & Hsx). destruct (IHe2 Hw2 WPlain py Hpy) as (ty & Hty & Hsy).
      exists px, py, tx, ty. auto. }
    assert (Hcoal : forall tx ty (opn : str) optok, C tx (T e1) -> C ty (T e2) -> bin_level optok = Some (4, opn) ->
              is_w k_IS optok = false -> is_w k_IN optok = false -> is_p p_lp optok = false -> is_w k_FILTER optok = false -> is_p p_dot optok = false -> is_p p_lb optok = false ->
              A (SWord w_coalesce :: lp_t :: join_toks [tx ++ optok :: ty; [SWord w_FALSE]] ++ [rp_t]) (XCall w_coalesce [XBin opn (T e1) (T e2); XWord w_FALSE])).
    { intros tx ty opn optok Hx Hy Hl G1 G2 G3 G4 G5 G6. apply A_call; [split; reflexivity| |discriminate].
      constructor; [eapply Fx_bin; eassumption|]. constructor; [apply A_Fx, A_word; split; reflexivity|constructor]. }
    assert (Hlower : forall tx ty (opn : str) optok, Fx tx (T e1) -> Fx ty (T e2) -> bin_level optok = Some (4, opn) ->
              is_w k_IS optok = false -> is_w k_IN optok = false -> is_p p_lp optok = false -> is_w k_FILTER optok = false -> is_p p_dot optok = false -> is_p p_lb optok = false ->
              Fx ((SWord w_lower :: lp_t :: join_toks [tx] ++ [rp_t]) ++ optok :: (SWord w_lower :: lp_t :: join_toks [ty] ++ [rp_t]))
                 (XBin opn (XCall w_lower [T e1]) (XCall w_lower [T e2]))).
    { intros tx ty opn optok Hx Hy Hl G1 G2 G3 G4 G5 G6.
      eapply Fx_bin; try eassumption; apply A_C, A_call; try (split; reflexivity); try discriminate; (constructor; [assumption|constructor]). }
    apply body_of_Fx_ex; [reflexivity|].
    unfold T. cbn [trans]. fold jm.
    destruct op; try discriminate Hop; try congruence; cbn [binop_sql] in Hb |- *.
    all: try (apply Hmaybe in Hb as (px & py & tx & ty & Hb & Hpx & Hpy & Hcx & Hcy); injection Hb as <-;
              eexists; split; [ptk|]; eapply Fx_bin; try eassumption; reflexivity).
    + (* == *)
      apply Hmaybe in Hb as (px & py & tx & ty & Hb & Hpx & Hpy & Hcx & Hcy).
      destruct (mode_eqb (c_mode c) ModeJoin && ((mentions w_left e1 || mentions w_left e2) && (mentions w_right e1 || mentions w_right e2))) eqn:Epl;
        unfold jm; rewrite Epl; injection Hb as <-.
      * exists (tx ++ SPunct w_eq :: ty). split; [ptk|]. eapply Fx_bin; try eassumption; reflexivity.
      * eexists. split; [|apply A_Fx, (Hcoal tx ty w_eq (SPunct w_eq)); try assumption; reflexivity]. ptk.
    + (* != *)
      apply Hmaybe in Hb as (px & py & tx & ty & Hb & Hpx & Hpy & Hcx & Hcy). injection Hb as <-.
      eexists. split; [|apply A_Fx, (Hcoal tx ty w_ne (SPunct w_ne)); try assumption; reflexivity]. ptk.
    + (* =~ *)
      apply Hplain in Hb as (px & py & tx & ty & Hb & Hpx & Hpy & Hcx & Hcy). injection Hb as <-.
      eexists. split; [|apply (Hlower tx ty w_eq (SPunct w_eq)); try assumption; reflexivity]. ptk.
    + (* !~ *)
      apply Hplain in Hb as (px & py & tx & ty & Hb & Hpx & Hpy & Hcx & Hcy). injection Hb as <-.
      eexists. split; [|apply (Hlower tx ty w_ne (SPunct w_ne)); try assumption; reflexivity]. ptk.
  - (* signs *)
    cbn [wfr] in Hwf. destruct Hwf as (Hop & Hw1).
    cbn [wx] in Hx. eapply wrap_shape; [exact Hx| |intros; discriminate]. clear Hx. intros b Hb.
    apply bind_ok in Hb as (px & Hpx & Hb). destruct (IHe Hw1 WOperand px Hpx) as (tx & Htx & Hsx). cbn [Shape] in Hsx.
    unfold T. cbn [trans substv map]. fold_T.
    destruct Hop as [-> | ->]; injection Hb as <-.
    + exists (SPunct p_plus :: tx). split; [ptk|]. split; [apply C_Fx|split; [intros _|intros _ Hn; exfalso; eapply Hn; reflexivity]];
        apply C_unary; [right; reflexivity|apply A_C; exact Hsx| right; reflexivity|apply A_C; exact Hsx].
    + exists (SPunct p_minus :: tx). split; [ptk|]. split; [apply C_Fx|split; [intros _|intros _ Hn; exfalso; eapply Hn; reflexivity]];
        apply C_unary; [left; reflexivity|apply A_C; exact Hsx| left; reflexivity|apply A_C; exact Hsx].
  - (* in *)
    cbn [wfr] in Hwf. destruct Hwf as (Hw1 & Hne & Hall). apply wfr_all in Hall.
    cbn [wx] in Hx. eapply wrap_shape; [exact Hx| |intros; discriminate]. clear Hx. intros b Hb.
    apply bind_ok in Hb as (px & Hpx & Hb). apply bind_ok in Hb as (pvs & Hpvs & [= <-]).
    destruct (IHe Hw1 WMaybe px Hpx) as (tx & Htx & Hsx). cbn [Shape] in Hsx.
    apply sequence_ok in Hpvs. destruct (Forall2_seq WMaybe vs pvs H Hall Hpvs) as (tl & Htl & Hsl).
    apply body_of_Fx_ex; [reflexivity|]. unfold T. cbn [trans substv map]. fold_T.
    exists (tx ++ SWord k_IN :: lp_t :: join_toks tl ++ [rp_t]). split.
    { pose proof (join_pieces_toks _ _ Htl) as Hj. ptk. }
    apply Fx_in; [exact Hsx| |].
    + eapply Forall2_impl; [|exact Hsl]. intros ? ? Hc. apply C_Fx. exact Hc.
    + eapply Forall2_ne; [exact Hsl|]. destruct vs; [congruence|discriminate].
  - (* parentheses *) cbn [wfr] in Hwf. cbn [wx] in Hx. unfold T. cbn [trans]. fold_T. apply IHe; assumption.
  - (* literals *) apply lit_body; assumption.
  - (* calls *)
    cbn [wfr] in Hwf. destruct Hwf as (Hname & Hall). apply wfr_all in Hall.
    cbn [wx] in Hx. eapply wrap_shape; [exact Hx| |intros; discriminate]. clear Hx. intros b Hb.
    unfold T. cbn [trans substv map]. fold_T.
    assert (IHarg : forall a w pa, In a args -> wx c w a = Ok pa -> exists ta, ptoks pa = Some ta /\ Shape w ta (T a)).
    { intros a w0 pa Hin Hpa. rewrite Forall_forall in H, Hall. apply (H a Hin (Hall a Hin) w0 pa Hpa). }
    destruct (known_func (iname f)) as [[wr np]|] eqn:Ek.
    + destruct (arity_ok (writer_arity wr) (length args)) eqn:Ea; cbn [negb] in Hb; [|discriminate].
      assert (Hcx : complex (ECall f lp args rp) = np) by (cbn [complex]; rewrite Ek; destruct np; reflexivity).
      apply known_func_cases in Ek. cbn [In map snd known_funcs] in Ek.
      destruct Ek as [Ek|[Ek|[Ek|[Ek|[Ek|[Ek|[Ek|[Ek|[Ek|[Ek|[Ek|[]]]]]]]]]]]]; injection Ek as <- <-.
      * (* count *) destruct args; [|discriminate Ea]. cbn in Hb. injection Hb as <-.
        exists [SWord k_count; lp_t; rp_t]. split; [reflexivity|]. apply body_of_A, A_call0. split; reflexivity.
      * (* countif *) destruct args as [|a [|? ?]]; try discriminate Ea. cbn in Hb. unbind Hb.
        destruct (IHarg a WPlain _ (or_introl eq_refl) Hq0) as (ta & Hta & Hsa). cbn [Shape] in Hsa.
        eexists. split; [|apply body_of_A, (A_countif ta (T a)); exact Hsa]. ptk.
      * (* iff *) destruct args as [|a1 [|a2 [|a3 [|? ?]]]]; try discriminate Ea. cbn in Hb. unbind Hb.
        match goal with H1 : wx c WPlain a1 = Ok ?p1, H2 : wx c WPlain a2 = Ok ?p2, H3 : wx c WPlain a3 = Ok ?p3 |- _ =>
          destruct (IHarg a1 WPlain p1 ltac:(cbn; tauto) H1) as (t1 & Ht1 & Hs1);
          destruct (IHarg a2 WPlain p2 ltac:(cbn; tauto) H2) as (t2 & Ht2 & Hs2);
          destruct (IHarg a3 WPlain p3 ltac:(cbn; tauto) H3) as (t3 & Ht3 & Hs3) end. cbn [Shape] in Hs1, Hs2, Hs3.
        apply body_of_Fx_ex; [exact Hcx|].
        exists (SWord k_CASE :: SWord k_WHEN :: (SWord w_coalesce :: lp_t :: join_toks [t1; [SWord w_FALSE]] ++ [rp_t]) ++ SWord k_THEN :: t2 ++ SWord k_ELSE :: t3 ++ [SWord k_END]).
        split; [ptk|]. apply A_Fx, A_case; [|exact Hs2|exact Hs3].
        apply A_Fx, A_call; [split; reflexivity| |discriminate]. constructor; [exact Hs1|]. constructor; [apply A_Fx, A_word; split; reflexivity|constructor].
      * (* iif *) destruct args as [|a1 [|a2 [|a3 [|? ?]]]]; try discriminate Ea. cbn in Hb. unbind Hb.
        match goal with H1 : wx c WPlain a1 = Ok ?p1, H2 : wx c WPlain a2 = Ok ?p2, H3 : wx c WPlain a3 = Ok ?p3 |- _ =>
          destruct (IHarg a1 WPlain p1 ltac:(cbn; tauto) H1) as (t1 & Ht1 & Hs1);
          destruct (IHarg a2 WPlain p2 ltac:(cbn; tauto) H2) as (t2 & Ht2 & Hs2);
          destruct (IHarg a3 WPlain p3 ltac:(cbn; tauto) H3) as (t3 & Ht3 & Hs3) end. cbn [Shape] in Hs1, Hs2, Hs3.
        apply body_of_Fx_ex; [exact Hcx|].
        exists (SWord k_CASE :: SWord k_WHEN :: (SWord w_coalesce :: lp_t :: join_toks [t1; [SWord w_FALSE]] ++ [rp_t]) ++ SWord k_THEN :: t2 ++ SWord k_ELSE :: t3 ++ [SWord k_END]).
        split; [ptk|]. apply A_Fx, A_case; [|exact Hs2|exact Hs3].
        apply A_Fx, A_call; [split; reflexivity| |discriminate]. constructor; [exact Hs1|]. constructor; [apply A_Fx, A_word; split; reflexivity|constructor].
      * (* isnotnull *) destruct args as [|a [|? ?]]; try discriminate Ea. cbn in Hb. unbind Hb.
        match goal with Hq : wx c WMaybe a = Ok ?pa |- _ => destruct (IHarg a WMaybe pa (or_introl eq_refl) Hq) as (ta & Hta & Hsa) end. cbn [Shape] in Hsa.
        apply body_of_Fx_ex; [exact Hcx|]. eexists. split; [|apply (Fx_isnull true ta (T a)); exact Hsa]. ptk.
      * (* isnull *) destruct args as [|a [|? ?]]; try discriminate Ea. cbn in Hb. unbind Hb.
        match goal with Hq : wx c WMaybe a = Ok ?pa |- _ => destruct (IHarg a WMaybe pa (or_introl eq_refl) Hq) as (ta & Hta & Hsa) end. cbn [Shape] in Hsa.
        apply body_of_Fx_ex; [exact Hcx|]. eexists. split; [|apply (Fx_isnull false ta (T a)); exact Hsa]. ptk.
      * (* not *) destruct args as [|a [|? ?]]; try discriminate Ea. cbn in Hb. unbind Hb.
        match goal with Hq : wx c WMaybe a = Ok ?pa |- _ => destruct (IHarg a WMaybe pa (or_introl eq_refl) Hq) as (ta & Hta & Hsa) end. cbn [Shape] in Hsa.
        apply body_of_Fx_ex; [exact Hcx|]. eexists. split; [|apply (Fx_not ta (T a)); exact Hsa]. ptk.
      * (* now *) destruct args; [|discriminate Ea]. cbn in Hb. injection Hb as <-.
        exists [SWord w_now]. split; [reflexivity|]. apply body_of_A, A_word. split; reflexivity.
      * (* strcat *) destruct args as [|a r]; [discriminate Ea|]. cbn in Hb.
        match type of Hb with context [sequence (?g 1 r)] =>
          assert (Hgo : forall l i, 1 <= i -> g i l = map (wx c WMaybe) l) end.
        { induction l as [|x l IHl]; intros i Hi; [reflexivity|]. destruct i as [|i]; [lia|]. cbn. f_equal. apply IHl. lia. }
        rewrite (Hgo r 1 (le_n _)) in Hb. clear Hgo. unbind Hb.
        match goal with Hq : wx c WMaybe a = Ok ?pa |- _ => destruct (IHarg a WMaybe pa (or_introl eq_refl) Hq) as (ta & Hta & Hsa) end. cbn [Shape] in Hsa.
        match goal with Hs : sequence (map (wx c WMaybe) r) = Ok ?rest |- _ => apply sequence_ok in Hs; rename Hs into Hseq; rename rest into prest end.
        inversion H as [|a0 l0 _ Hr]; subst. inversion Hall as [|a1 l1 _ Hwr]; subst.
        destruct (Forall2_seq WMaybe r prest Hr Hwr Hseq) as (tl & Htl & Hsl).
        apply body_of_Fx_ex; [exact Hcx|]. cbn [map]. rewrite substv_fold. fold_T.
        exists (ta ++ flat_map (fun tb => cat_t :: tb) tl). split.
        { pose proof (flat_pieces_toks _ _ Htl) as Hfl. rewrite app_nil_r. apply ptoks_app; [exact Hta|exact Hfl]. }
        apply Fx_chain; [exact Hsa|exact Hsl].
      * (* tolower *) destruct args as [|a [|? ?]]; try discriminate Ea. cbn in Hb. unbind Hb.
        match goal with Hq : wx c WPlain a = Ok ?pa |- _ => destruct (IHarg a WPlain pa (or_introl eq_refl) Hq) as (ta & Hta & Hsa) end. cbn [Shape] in Hsa.
        apply body_of_Fx_ex; [exact Hcx|]. eexists. split; [|apply A_Fx, (A_call w_LOWER [ta] [T a]); [split; reflexivity|constructor; [exact Hsa|constructor]|discriminate]]. ptk.
      * (* toupper *) destruct args as [|a [|? ?]]; try discriminate Ea. cbn in Hb. unbind Hb.
        match goal with Hq : wx c WPlain a = Ok ?pa |- _ => destruct (IHarg a WPlain pa (or_introl eq_refl) Hq) as (ta & Hta & Hsa) end. cbn [Shape] in Hsa.
        apply body_of_Fx_ex; [exact Hcx|]. eexists. split; [|apply A_Fx, (A_call w_UPPER [ta] [T a]); [split; reflexivity|constructor; [exact Hsa|constructor]|discriminate]]. ptk.
    + (* a function passed through by name *)
      cbn [substv]. fold_T. specialize (Hname eq_refl).
      apply bind_ok in Hb as (pargs & Hpargs & [= <-]). apply sequence_ok in Hpargs.
      destruct (Forall2_seq WPlain args pargs H Hall Hpargs) as (tl & Htl & Hsl).
      assert (Hcx : complex (ECall f lp args rp) = false) by (cbn [complex]; rewrite Ek; reflexivity).
      destruct args as [|a0 args'].
      * inversion Hpargs; subst. exists [SWord (iname f); lp_t; rp_t]. split; [reflexivity|]. apply body_of_A, A_call0. exact Hname.
      * exists (SWord (iname f) :: lp_t :: join_toks tl ++ [rp_t]). split.
        { pose proof (join_pieces_toks _ _ Htl) as Hj. ptk. }
        apply body_of_A, A_call; [exact Hname|exact Hsl|]. eapply Forall2_ne; [exact Hsl|discriminate].
  - (* index *)
    cbn [wfr] in Hwf. destruct Hwf as (Hw1 & Hw2).
    cbn [wx] in Hx. eapply wrap_shape; [exact Hx| |intros; discriminate]. clear Hx. intros b Hb.
    apply bind_ok in Hb as (px & Hpx & Hb). apply bind_ok in Hb as (pi & Hpi & [= <-]).
    destruct (IHe1 Hw1 WOperand px Hpx) as (tx & Htx & Hsx). destruct (IHe2 Hw2 WPlain pi Hpi) as (ti & Hti & Hsi). cbn [Shape] in Hsx, Hsi.
    apply body_of_Fx_ex; [reflexivity|]. unfold T. cbn [trans substv map]. fold_T.
    exists (tx ++ lb_t :: ti ++ [rb_t]). split; [ptk|]. apply C_Fx, C_index; assumption.
Qed.
End Writer.

(** ** scopes: the empty scope, and the scope a chain of let statements builds *)
Lemma trans_ext (f g : str -> bool) jm : (forall n, f n = g n) -> forall e, trans f jm e = trans g jm e.
Proof.
  intros Hfg. induction e using expr_ind'; cbn [trans].
  - destruct ps as [|p [|p2 r]]; try reflexivity. rewrite Hfg. reflexivity.
  - rewrite IHe1, IHe2. reflexivity.
  - rewrite IHe. reflexivity.
  - rewrite IHe. f_equal. apply map_ext_in. intros a Ha. rewrite Forall_forall in H. apply H. exact Ha.
  - exact IHe.
  - reflexivity.
  - assert (Hm : map (trans f jm) args = map (trans g jm) args) by (apply map_ext_in; intros a Ha; rewrite Forall_forall in H; apply H; exact Ha).
    rewrite Hm. reflexivity.
  - rewrite IHe1, IHe2. reflexivity.
Qed.

Lemma map_id_on {X} (f : X -> X) l : Forall (fun x => f x = x) l -> map f l = l.
Proof. induction 1 as [|x l Hx Hl IH]; [reflexivity|]. cbn [map]. rewrite Hx, IH. reflexivity. Qed.

Lemma substv_fold_id vals bs : forall a, substv vals a = a -> Forall (fun b => substv vals b = b) bs ->
  substv vals (fold_left (fun acc b => XBin w_concat acc b) bs a) = fold_left (fun acc b => XBin w_concat acc b) bs a.
Proof.
  induction bs as [|b r IH]; intros a Ha Hb; [exact Ha|]. inversion Hb; subst. cbn [fold_left]. apply IH; [cbn [substv]; rewrite Ha, H1; reflexivity|assumption].
Qed.

(** with nothing bound, no bound name occurs in the intended tree *)
Lemma substv_nobound vals jm : forall e, substv vals (trans (fun _ => false) jm e) = trans (fun _ => false) jm e.
Proof.
  induction e using expr_ind'; cbn [trans].
  - destruct ps as [|p [|p2 r]]; try reflexivity. rewrite Bool.andb_false_r.
    destruct (negb (iquoted p)); [destruct (assoc_str builtin_idents (iname p))|]; reflexivity.
  - destruct op; cbn [binop_sql substv map]; rewrite ?IHe1, ?IHe2; try reflexivity.
    destruct (jm && _); cbn [substv map]; rewrite ?IHe1, ?IHe2; reflexivity.
  - cbn [substv]. rewrite IHe. reflexivity.
  - cbn [substv]. rewrite IHe. f_equal. rewrite map_map. apply map_ext_in. intros a Ha. rewrite Forall_forall in H. apply H. exact Ha.
  - exact IHe.
  - destruct k; reflexivity.
  - assert (Hall : Forall (fun b => substv vals b = b) (map (trans (fun _ => false) jm) args)).
    { apply Forall_forall. intros b Hb. apply in_map_iff in Hb as (a & <- & Ha). rewrite Forall_forall in H. apply H. exact Ha. }
    destruct (known_func (iname f)) as [[wr np]|].
    + destruct wr; try reflexivity;
        try (destruct (map (trans (fun _ => false) jm) args) as [|a [|b [|c0 [|d r]]]]; try reflexivity;
             repeat match goal with Hf : Forall _ (_ :: _) |- _ => inversion Hf; clear Hf; subst end;
             cbn [substv map]; repeat match goal with Hq : substv vals ?x = ?x |- _ => rewrite Hq; clear Hq end; reflexivity).
      (* strcat *)
      destruct (map (trans (fun _ => false) jm) args) as [|a r]; [reflexivity|]. inversion Hall; subst.
      apply substv_fold_id; assumption.
    + cbn [substv]. rewrite (map_id_on _ _ Hall). reflexivity.
  - cbn [substv]. rewrite IHe1, IHe2. reflexivity.
Qed.

(** the empty scope *)
Theorem wx_reads_empty c : c_scope c = [] -> forall e, wfr e -> forall w ps, wx c w e = Ok ps ->
  exists ts, ptoks ps = Some ts /\ Shape w ts (trans (fun _ => false) (mode_eqb (c_mode c) ModeJoin) e).
Proof.
  intros Hsc e Hwf w ps Hw.
  destruct (wx_reads c (fun _ => XWord []) ltac:(intros n ps0 Hn; rewrite Hsc in Hn; discriminate) e Hwf w ps Hw) as (ts & Ht & Hs).
  exists ts. split; [exact Ht|].
  rewrite (trans_ext _ (fun _ => false)) in Hs by (intros n; rewrite Hsc; reflexivity).
  rewrite substv_nobound in Hs. exact Hs.
Qed.

(** ** from the parser to the reader *)
From PQL Require Import Spec.Flatten Proofs.ParserSound Proofs.ParserReject.

(** finding F1 as a condition: no pass-through function is called NOT or CASE (in any letter case) *)
Fixpoint names_ok (e : expr) : Prop :=
  match e with
  | EQual _ | ELit _ _ _ => True
  | EUnary _ _ x | EParen _ x _ => names_ok x
  | EBin x _ _ y | EIndex x _ y _ => names_ok x /\ names_ok y
  | EIn x _ _ vs _ => names_ok x /\ (fix all (l : list expr) : Prop := match l with [] => True | a :: r => names_ok a /\ all r end) vs
  | ECall f _ args _ =>
    (known_func (iname f) = None -> plain_word (iname f)) /\
    (fix all (l : list expr) : Prop := match l with [] => True | a :: r => names_ok a /\ all r end) args
  end.

Definition names_ok_list (l : list expr) : Prop :=
  (fix all (l : list expr) : Prop := match l with [] => True | a :: r => names_ok a /\ all r end) l.

Definition wfr_list (l : list expr) : Prop :=
  (fix all (l : list expr) : Prop := match l with [] => True | a :: r => wfr a /\ all r end) l.

(** every tree the parser builds is well formed *)
Lemma parsed_wfr :
  (forall e ts, toks_expr e ts -> names_ok e -> wfr e) /\
  (forall l ts, toks_list l ts -> names_ok_list l -> wfr_list l) /\
  (forall l ts, toks_args l ts -> names_ok_list l -> wfr_list l).
Proof.
  apply toks_expr_mutind; cbn [names_ok wfr names_ok_list wfr_list]; intros; try tauto.
  all: try (match goal with H : toks_qual _ _ |- _ => destruct H; discriminate end).
  all: repeat match goal with H : _ /\ _ |- _ => destruct H end.
  all: repeat split; auto; try (apply binop_sql_total; assumption).
Qed.

Section TopLevel.
Variable c : ctx.
Hypothesis scope_empty : c_scope c = [].

(** What the expression parser accepted and the writer printed re-reads -- token for token,
    under the dialect's precedence -- as the tree the writer intends, with nothing left over. *)
Theorem printed_expression_rereads srclen f ts e rest ps :
  p_expr srclen f ts = (Some e, rest, []) -> names_ok e -> wexpr c e = Ok ps ->
  exists toks, ptoks ps = Some toks /\
    Conv (fun fuel => sx fuel 0 toks) (trans (fun _ => false) (mode_eqb (c_mode c) ModeJoin) e, []).
Proof.
  intros Hp Hn Hw. destruct (p_expr_sound _ _ _ _ _ Hp) as (used & _ & Hu).
  pose proof (proj1 parsed_wfr _ _ Hu Hn) as Hwf.
  destruct (wx_reads_empty c scope_empty e Hwf WPlain ps Hw) as (toks & Ht & [_ HF]). cbn [Shape] in HF.
  exists toks. split; [exact Ht|]. destruct (HF [] I) as (f0 & Hf0). exists f0. intros fuel Hle.
  specialize (Hf0 fuel Hle). rewrite app_nil_r in Hf0. exact Hf0.
Qed.
End TopLevel.

(** ** C06: the scope a chain of let statements builds *)
Definition scope_inv (sc : scope) (vals : str -> sexpr) : Prop :=
  forall n ps, scope_get sc n = Some ps -> exists ts, ptoks ps = Some ts /\ A ts (vals n).
Definition isb_of (sc : scope) (n : str) : bool := match scope_get sc n with Some _ => true | None => false end.
Definition bound_in (names : list str) (n : str) : bool := existsb (fun k => str_eqb k n) names.

(** the documented scoping rules as a function: a let before the query binds its name to the
    tree of its value read in the scope of the lets before it (a later let of the same name
    shadows); lets after the query bind nothing *)
Fixpoint let_vals (names : list str) (vals : str -> sexpr) (after_query : bool) (ss : list stmt) : list str * (str -> sexpr) :=
  match ss with
  | [] => (names, vals)
  | STab _ :: r => let_vals names vals true r
  | SLet _ name _ x :: r =>
    if after_query then let_vals names vals after_query r
    else
      let v := substv vals (trans (bound_in names) false x) in
      let_vals (iname name :: names) (fun n => if str_eqb (iname name) n then v else vals n) after_query r
  end.

Definition lets_wfr (ss : list stmt) : Prop :=
  Forall (fun s => match s with SLet _ _ _ x => wfr x | STab _ => True end) ss.

Theorem let_chain_scope : forall ss sc names vals q sc' q',
  lets_wfr ss -> scope_inv sc vals -> (forall n, isb_of sc n = bound_in names n) ->
  stmt_loop sc q ss = Ok (sc', q') ->
  let '(names', vals') := let_vals names vals (match q with Some _ => true | None => false end) ss in
  scope_inv sc' vals' /\ (forall n, isb_of sc' n = bound_in names' n).
Proof.
  induction ss as [|s r IH]; intros sc names vals q sc' q' Hwf Hinv Hnames Hloop; cbn [stmt_loop let_vals] in *.
  - injection Hloop as <- <-. split; assumption.
  - inversion Hwf as [|s0 r0 Hs Hr]; subst. destruct s as [kw name asp x|t].
    + destruct q as [t0|].
      * apply (IH sc names vals (Some t0) sc' q' Hr Hinv Hnames Hloop).
      * apply bind_ok in Hloop as (v & Hv & Hloop).
        set (tree := substv vals (trans (bound_in names) false x)).
        assert (HA : exists ts, ptoks v = Some ts /\ A ts tree).
        { destruct (wx_reads (mkCtx sc ModeLet) vals Hinv x Hs WOperand v Hv) as (ts & Hts & HAs). exists ts. split; [exact Hts|].
          cbn [Shape c_scope c_mode mode_eqb] in HAs. unfold tree.
          rewrite (trans_ext _ (bound_in names)) in HAs; [exact HAs|]. intros n. apply Hnames. }
        apply (IH ((iname name, v) :: sc) (iname name :: names) (fun n => if str_eqb (iname name) n then tree else vals n) None sc' q' Hr); [| |exact Hloop].
        -- intros n ps. cbn [scope_get]. destruct (str_eqb (iname name) n); [intros [= <-]; exact HA|apply Hinv].
        -- intros n. unfold isb_of, bound_in. cbn [scope_get existsb]. destruct (str_eqb (iname name) n); [reflexivity|apply Hnames].
    + destruct q as [t0|]; [discriminate|]. apply (IH sc names vals (Some t) sc' q' Hr Hinv Hnames Hloop).
Qed.

(** Every expression of the query, written in the scope the let statements built (no parameters),
    re-reads as its intended tree with each bound name replaced by the tree of its let value:
    a substituted value always acts as one operand, whatever operators surround the name. *)
Theorem let_values_act_as_operands ss sc' t : lets_wfr ss -> stmt_loop [] None ss = Ok (sc', Some t) ->
  let '(names, vals) := let_vals [] (fun _ => XWord []) false ss in
  forall mode e w ps, wfr e -> wx (mkCtx sc' mode) w e = Ok ps ->
    exists ts, ptoks ps = Some ts /\ Shape w ts (substv vals (trans (bound_in names) (mode_eqb mode ModeJoin) e)).
Proof.
  intros Hwf Hloop.
  pose proof (let_chain_scope ss [] [] (fun _ => XWord []) None sc' (Some t) Hwf ltac:(intros n ps H; discriminate) ltac:(intros n; reflexivity) Hloop) as H.
  cbn iota in H. destruct (let_vals [] (fun _ => XWord []) false ss) as [names vals]. destruct H as [Hinv Hnames].
  intros mode e w ps He Hw.
  destruct (wx_reads (mkCtx sc' mode) vals Hinv e He w ps Hw) as (ts & Hts & Hs). exists ts. split; [exact Hts|].
  cbn [c_scope c_mode] in Hs. rewrite (trans_ext _ (bound_in names)) in Hs; [exact Hs|]. intros n. apply Hnames.
Qed.
