(** * C08, the "consequently" half: a source with a token no production accepts is rejected.
    From [parse_sound]: every token of a successfully parsed source occurs in the tree's token
    sequence with the kind the grammar demands there, so none of them is an error token
    (unrecognised character, unterminated string or identifier, malformed number). *)
From PQL Require Import Spec.FlattenStmt Proofs.ParserSound Proofs.ParserSoundStmt.
From Coq Require Import Lia ZArith.
Local Open Scope list_scope.
Local Open Scope nat_scope.

Definition ok_tok (t : token) : Prop := tkind t <> KError.
Definition all_ok (ts : list token) : Prop := Forall ok_tok ts.

Scheme toks_expr_m := Minimality for toks_expr Sort Prop
  with toks_list_m := Minimality for toks_list Sort Prop
  with toks_args_m := Minimality for toks_args Sort Prop.
Combined Scheme toks_expr_mutind from toks_expr_m, toks_list_m, toks_args_m.

Scheme toks_op_m := Minimality for toks_op Sort Prop
  with toks_ops_m := Minimality for toks_ops Sort Prop.
Combined Scheme toks_op_mutind from toks_op_m, toks_ops_m.

Ltac okk :=
  unfold ok_tok;
  match goal with
  | H : is_tok _ _ ?t |- tkind ?t <> _ => destruct H as [H _]; rewrite H; discriminate
  | H : kw_tok _ _ ?t |- tkind ?t <> _ => destruct H as [H _]; rewrite H; discriminate
  | H : ident_tok ?i ?t |- tkind ?t <> _ => destruct H as [H _]; rewrite H; destruct (iquoted i); discriminate
  | H : tkind ?t = _ |- tkind ?t <> _ => rewrite H; discriminate
  end.

Ltac fa := unfold all_ok in *; repeat first [ assumption | apply Forall_nil | apply Forall_cons | apply Forall_app; split | okk ].

Lemma qual_ok ps ts : toks_qual ps ts -> all_ok ts.
Proof. induction 1; fa. Qed.

Lemma prec_not_error op : (0 <= op_prec op)%Z -> op <> KError.
Proof. intros H ->. vm_compute in H. apply H. reflexivity. Qed.

Lemma expr_ok : (forall e ts, toks_expr e ts -> all_ok ts) /\ (forall l ts, toks_list l ts -> all_ok ts) /\ (forall l ts, toks_args l ts -> all_ok ts).
Proof.
  apply toks_expr_mutind; intros; try (fa; fail).
  - eapply qual_ok; eassumption.
  - fa. unfold ok_tok. match goal with Hk : tkind ?t = ?k, Hor : ?k = KNumber \/ _ |- tkind ?t <> _ => rewrite Hk; destruct Hor; subst; discriminate end.
  - fa. unfold ok_tok. match goal with Ht : is_tok ?op _ ?t, Hor : ?op = KPlus \/ _ |- tkind ?t <> _ => destruct Ht as [Ht _]; rewrite Ht; destruct Hor; subst; discriminate end.
  - fa. unfold ok_tok. match goal with Ht : is_tok ?op _ ?t, Hp : (0 <= op_prec ?op)%Z |- tkind ?t <> _ => destruct Ht as [Ht _]; rewrite Ht; apply prec_not_error; exact Hp end.
Qed.

Lemma sep_ok {A} (P : A -> list token -> Prop) : (forall a ts, P a ts -> all_ok ts) -> forall l ts, toks_sep P l ts -> all_ok ts.
Proof. intros HP l ts H. induction H; [eapply HP; eassumption|]. apply HP in H. fa. Qed.

Lemma sort_term_ok t ts : toks_sort_term t ts -> all_ok ts.
Proof.
  intros H. destruct H as [x asc asp dflt nf nsp tx ta tn Hx Hd Hn]. apply expr_ok in Hx.
  destruct Hd; destruct Hn; fa.
Qed.

Lemma ext_col_ok c ts : toks_ext_col c ts -> all_ok ts.
Proof. intros H. destruct H as [i asp x ti ta tx Hi Ha Hx|x tx Hx]; apply expr_ok in Hx; fa. Qed.

Lemma proj_col_ok c ts : toks_proj_col c ts -> all_ok ts.
Proof. intros H. destruct H as [i ti Hi|i asp x ti ta tx Hi Ha Hx]; [fa|apply expr_ok in Hx; fa]. Qed.

Lemma render_prop_ok c ts : toks_render_prop c ts -> all_ok ts.
Proof. intros H. destruct H as [i asp x ti ta tx Hi Ha Hx]. apply expr_ok in Hx. fa. Qed.

Lemma summ_ok cols bsp gs ts : toks_summ cols bsp gs ts -> all_ok ts.
Proof.
  intros H. destruct H;
    repeat match goal with H : toks_sep toks_ext_col _ _ |- _ => apply (sep_ok _ ext_col_ok) in H end; fa.
Qed.

Lemma op_ok : (forall o ts, toks_op o ts -> all_ok ts) /\ (forall l ts, toks_ops l ts -> all_ok ts).
Proof.
  apply toks_op_mutind; intros;
    repeat match goal with
    | H : toks_expr _ _ |- _ => apply expr_ok in H
    | H : toks_list _ _ |- _ => apply expr_ok in H
    | H : toks_sort_term _ _ |- _ => apply sort_term_ok in H
    | H : toks_sep toks_sort_term _ _ |- _ => apply (sep_ok _ sort_term_ok) in H
    | H : toks_sep toks_ext_col _ _ |- _ => apply (sep_ok _ ext_col_ok) in H
    | H : toks_sep toks_proj_col _ _ |- _ => apply (sep_ok _ proj_col_ok) in H
    | H : toks_summ _ _ _ _ |- _ => apply summ_ok in H
    end; try (fa; fail).
  - (* join *) destruct H1; fa.
  - (* render *) destruct H2; [fa|]. apply (sep_ok _ render_prop_ok) in H4. fa.
Qed.

Lemma stmt_ok s ts : toks_stmt s ts -> all_ok ts.
Proof.
  intros H. destruct H as [ksp i asp x tk ti ta tx Hk Hi Ha Hx|t ts (tsrc0 & tro & -> & Hs & Ho)].
  - apply expr_ok in Hx. fa.
  - apply op_ok in Ho. fa.
Qed.

Lemma prog_ok ss ts : toks_prog ss ts -> all_ok ts.
Proof. induction 1; try match goal with H : toks_stmt _ _ |- _ => apply stmt_ok in H end; fa. Qed.

(** A source whose scan contains an error token never parses. *)
Theorem error_token_rejected s t : In t (scan s) -> tkind t = KError -> forall ss, parse s <> ParseOk ss.
Proof.
  intros Hin Hk ss Hp. apply parse_sound in Hp. apply prog_ok in Hp.
  unfold all_ok in Hp. rewrite Forall_forall in Hp. exact (Hp t Hin Hk).
Qed.
