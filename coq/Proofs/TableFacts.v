(** * Facts decided on the generated tables (re-checked against the source on every run). *)
From PQL Require Import Model.Compile Model.Walk.
From Coq Require Import Lia String.
Local Open Scope list_scope.
Local Notation length := List.length (only parsing).
Local Open Scope Z_scope.

(** ** operatorPrecedence: or < and < comparisons (with in) < + - < * / % ; nothing else is binary *)
Definition is_cmp (k : kind) : bool :=
  match k with KEq | KNE | KLT | KLE | KGT | KGE | KCaseInsensitiveEq | KCaseInsensitiveNE | KIn => true | _ => false end.
Definition is_add (k : kind) : bool := match k with KPlus | KMinus => true | _ => false end.
Definition is_mul (k : kind) : bool := match k with KStar | KSlash | KMod => true | _ => false end.

Definition documented_level (k : kind) : Z :=
  if kind_eqb k KOr then 0 else if kind_eqb k KAnd then 1 else if is_cmp k then 2
  else if is_add k then 3 else if is_mul k then 4 else -1.

Lemma op_prec_documented : forallb (fun k => Z.eqb (op_prec k) (documented_level k)) all_kinds = true.
Proof. vm_compute. reflexivity. Qed.

Lemma all_kinds_complete k : In k all_kinds.
Proof. destruct k; vm_compute; tauto. Qed.

Theorem op_prec_spec k : op_prec k = documented_level k.
Proof.
  pose proof op_prec_documented as H. rewrite forallb_forall in H.
  apply Z.eqb_eq. apply H. apply all_kinds_complete.
Qed.

(** ** every binary operator the parser can build has a SQL rendering *)
Definition binop_handled (k : kind) : bool :=
  match k with
  | KEq | KNE | KCaseInsensitiveEq | KCaseInsensitiveNE | KIn => true
  | _ => match binop_sql k with Some _ => true | None => false end
  end.

Lemma binops_complete : forallb (fun k => (op_prec k <? 0) || binop_handled k) all_kinds = true.
Proof. vm_compute. reflexivity. Qed.

Theorem binop_sql_total k : 0 <= op_prec k -> binop_handled k = true.
Proof.
  intros Hp. pose proof binops_complete as H. rewrite forallb_forall in H.
  specialize (H k (all_kinds_complete k)). apply orb_prop in H as [H|H]; [lia|exact H].
Qed.

(** ** Walk: every node kind that can be pushed has a case in the type switch *)
Definition all_nkinds_complete k : In k all_nkinds.
Proof. destruct k; vm_compute; tauto. Qed.

(** kinds of the values a push statement can put on the stack *)
Fixpoint ftype_kinds (t : ftype) : list nkind :=
  match t with
  | FT_Ptr k => [k]
  | FT_Slice t' => ftype_kinds t'
  | FT_Iface =>   (* Expr / TabularOperator / TabularDataSource / Statement values *)
    [N_QualifiedIdent; N_BinaryExpr; N_UnaryExpr; N_InExpr; N_ParenExpr; N_BasicLit; N_CallExpr; N_IndexExpr;
     N_CountOperator; N_WhereOperator; N_SortOperator; N_TakeOperator; N_TopOperator; N_ProjectOperator;
     N_ExtendOperator; N_SummarizeOperator; N_JoinOperator; N_AsOperator; N_RenderOperator; N_TableRef;
     N_TabularExpr; N_LetStatement]
  | _ => []
  end.

Definition pushed_kinds (k : nkind) : list nkind :=
  match walk_children k with
  | None => []
  | Some ps =>
    flat_map (fun p =>
      match p with
      | P_Field f _ | P_SliceRev f | P_SliceFwd f =>
        match field_type (ast_fields k) f with Some t => ftype_kinds t | None => [] end
      | P_SliceRevEach f subs =>
        match field_type (ast_fields k) f with
        | Some (FT_Slice (FT_Ptr ek)) =>
          flat_map (fun sg => match field_type (ast_fields ek) (fst sg) with Some t => ftype_kinds t | None => [] end) subs
        | _ => []
        end
      end) ps
  end.

(** starting from statements, every kind that can reach the top of the stack has a case *)
Definition walk_roots : list nkind := [N_LetStatement; N_TabularExpr].

Fixpoint closure (fuel : nat) (seen todo : list nkind) : list nkind :=
  match fuel with
  | O => seen
  | S f =>
    match todo with
    | [] => seen
    | k :: r =>
      if existsb (nkind_eqb k) seen then closure f seen r
      else closure f (k :: seen) (pushed_kinds k ++ r)
    end
  end.

Definition walk_reachable : list nkind := closure 2000 [] walk_roots.

Lemma walk_table_total : forallb (fun k => match walk_children k with Some _ => true | None => false end) walk_reachable = true.
Proof. vm_compute. reflexivity. Qed.

(** every expression and identifier kind is reachable (so none is silently skipped), except
    through the two documented exceptions, which are fields and not kinds *)
Lemma walk_reaches_expr_kinds :
  forallb (fun k => existsb (nkind_eqb k) walk_reachable)
    [N_Ident; N_QualifiedIdent; N_BinaryExpr; N_UnaryExpr; N_InExpr; N_ParenExpr; N_BasicLit; N_CallExpr; N_IndexExpr] = true.
Proof. vm_compute. reflexivity. Qed.

(** the fields of node type that Walk does not push are exactly CallExpr.Func,
    JoinOperator.Flavor (documented) and RenderOperator.Props (whose members' fields are pushed instead) *)
Definition node_fields (k : nkind) : list fname :=
  flat_map (fun ft => match snd ft with FT_Ptr _ | FT_Iface | FT_Slice _ => [fst ft] | _ => [] end) (ast_fields k).
Definition pushed_fields (k : nkind) : list fname :=
  match walk_children k with
  | None => []
  | Some ps => map (fun p => match p with P_Field f _ | P_SliceRev f | P_SliceFwd f | P_SliceRevEach f _ => f end) ps
  end.
Definition unpushed (k : nkind) : list fname :=
  filter (fun f => negb (existsb (fname_eqb f) (pushed_fields k))) (node_fields k).

Lemma walk_unpushed_fields :
  forallb (fun k =>
    match unpushed k with
    | [] => true
    | [f] => (nkind_eqb k N_CallExpr && fname_eqb f F_Func) || (nkind_eqb k N_JoinOperator && fname_eqb f F_Flavor)
    | _ => false
    end) walk_reachable = true.
Proof. vm_compute. reflexivity. Qed.

(** optional fields (those a successful parse may leave nil) are pushed under a guard *)
Definition optional_fields : list (nkind * fname) :=
  [(N_ProjectColumn, F_X); (N_ExtendColumn, F_Name); (N_SummarizeColumn, F_Name); (N_JoinOperator, F_Flavor)].

Lemma walk_optional_guarded :
  forallb (fun kf =>
    match walk_children (fst kf) with
    | None => true
    | Some ps => forallb (fun p => match p with
                                   | P_Field f g => negb (fname_eqb f (snd kf)) || g
                                   | _ => true end) ps
    end) optional_fields = true.
Proof. vm_compute. reflexivity. Qed.

(** ** Span(): every span-bearing field of every node type is part of the union *)
Definition span_bearing (k : nkind) : list fname :=
  flat_map (fun ft => match snd ft with FT_Span | FT_Ptr _ | FT_Iface | FT_Slice _ => [fst ft] | _ => [] end) (ast_fields k).

Lemma span_table_complete :
  forallb (fun k => forallb (fun f => existsb (fun p => fname_eqb (spart_field p) f) (span_parts k)) (span_bearing k)) all_nkinds = true.
Proof. vm_compute. reflexivity. Qed.

(** and each part is read with the accessor that fits the field's type *)
Lemma span_table_well_typed :
  forallb (fun k => forallb (fun p =>
    match p, field_type (ast_fields k) (spart_field p) with
    | SP_Span _, Some FT_Span => true
    | SP_Node _, Some (FT_Ptr _) | SP_Node _, Some FT_Iface => true
    | SP_Slice _, Some (FT_Slice _) => true
    | _, _ => false
    end) (span_parts k)) all_nkinds = true.
Proof. vm_compute. reflexivity. Qed.

(** ** join kinds: the parser's table and the compiler's cases agree *)
Lemma join_types_handled :
  forallb (fun s => str_eqb s w_inner || str_eqb s w_innerunique || str_eqb s w_leftouter) join_types = true.
Proof. vm_compute. reflexivity. Qed.

(** ** documented built-ins: names, arities, parenthesisation *)
Definition documented_builtins : list (str * arity_rule) :=
  [(L "not", ArityExactly 1); (L "isnull", ArityExactly 1); (L "isnotnull", ArityExactly 1);
   (L "tolower", ArityExactly 1); (L "toupper", ArityExactly 1); (L "countif", ArityExactly 1);
   (L "now", ArityExactly 0); (L "count", ArityExactly 0); (L "iff", ArityExactly 3); (L "iif", ArityExactly 3);
   (L "strcat", ArityAtLeast 1)].

Definition arity_rule_eqb (a b : arity_rule) : bool :=
  match a, b with
  | ArityExactly x, ArityExactly y | ArityAtLeast x, ArityAtLeast y => Nat.eqb x y
  | ArityAny, ArityAny => true
  | _, _ => false
  end.

Lemma builtin_arities_documented :
  forallb (fun na => match known_func (fst na) with
                     | Some (w, _) => arity_rule_eqb (writer_arity w) (snd na)
                     | None => false end) documented_builtins = true
  /\ length known_funcs = length documented_builtins.
Proof. split; vm_compute; reflexivity. Qed.

(** a rewrite whose output is not a single SQL operand declares needsParens *)
Definition template_is_operand (t : list tpart) : bool :=
  match t with
  | [T_Lit _] => true                                   (* CURRENT_TIMESTAMP, count() *)
  | T_Lit _ :: r =>                                      (* NAME( ... ) [FILTER (WHERE ...)] *)
    match rev r with
    | T_Lit e :: _ => str_eqb e (L ")")
    | _ => false
    end
  | _ => false
  end.

Lemma needs_parens_sound :
  forallb (fun nf => match snd nf with (w, np) => np || template_is_operand (writer_template w) end) known_funcs = true.
Proof. vm_compute. reflexivity. Qed.

(** ** when sort / take / top may share the SELECT of the previous operator *)
Theorem sort_attach_spec s :
  split_cond_sort s = false <->
  (ss_nil s = false /\ ss_can_attach s = true /\ ss_has_sort s = false /\ ss_has_take s = false).
Proof. destruct s as [[] [] [] []]; vm_compute; intuition congruence. Qed.

Theorem take_attach_spec s :
  split_cond_take s = false <-> (ss_nil s = false /\ ss_can_attach s = true /\ ss_has_take s = false).
Proof. destruct s as [[] [] [] []]; vm_compute; intuition congruence. Qed.

Theorem top_attach_spec s :
  split_cond_top s = false <->
  (ss_nil s = false /\ ss_can_attach s = true /\ ss_has_sort s = false /\ ss_has_take s = false).
Proof. destruct s as [[] [] [] []]; vm_compute; intuition congruence. Qed.

(** operators whose SELECT changes the column names (or that must stay alone) never take a sort or limit *)
Definition renames_columns (k : nkind) : bool :=
  match k with N_ProjectOperator | N_SummarizeOperator | N_AsOperator | N_RenderOperator => true | _ => false end.

Theorem can_attach_spec : forallb (fun k => Bool.eqb (can_attach_sort k) (negb (renames_columns k))) all_nkinds = true
                          /\ can_attach_sort_default = true.
Proof. split; vm_compute; reflexivity. Qed.
