(** * Relayout: the tree depends on the tokens' kinds and values only.

    [rn_* fs fe] renames every offset a tree records: starts through [fs], ends through [fe].
    The token relation of Spec/Flatten*.v is natural in such a renaming, and the grammar predicate
    of Spec/Grammar.v does not look at offsets.  With the exact characterisation of [parse]
    (Proofs/ParserGramStmt.v) this gives: two sources whose token sequences agree in kinds and
    values parse alike - one succeeds exactly when the other does, and the second tree is the first
    with every offset renamed from the first layout's token offsets to the second's. *)
From PQL Require Import Spec.Grammar Proofs.LexerFacts Proofs.SplitFacts Proofs.ParserReject Proofs.ParserGramStmt Proofs.Layout.
From Coq Require Import Lia String.
Local Open Scope list_scope.
Local Open Scope nat_scope.
Local Notation length := List.length (only parsing).

Section Rename.
Variables fs fe : nat -> nat.

Definition rn_span (s : span) : span := match s with Some (a, b) => Some (fs a, fe b) | None => None end.
Definition rn_tok (t : token) : token := mkTok (tkind t) (fs (tstart t)) (fe (tend t)) (tvalue t).
Definition rn_ident (i : ident) : ident := mkIdent (iname i) (rn_span (ispan i)) (iquoted i).

Fixpoint rn_expr (e : expr) : expr :=
  match e with
  | EQual ps => EQual (map rn_ident ps)
  | EBin x sp op y => EBin (rn_expr x) (rn_span sp) op (rn_expr y)
  | EUnary sp op x => EUnary (rn_span sp) op (rn_expr x)
  | EIn x isp lsp vs rsp => EIn (rn_expr x) (rn_span isp) (rn_span lsp) (map rn_expr vs) (rn_span rsp)
  | EParen lsp x rsp => EParen (rn_span lsp) (rn_expr x) (rn_span rsp)
  | ELit sp k v => ELit (rn_span sp) k v
  | ECall f lsp args rsp => ECall (rn_ident f) (rn_span lsp) (map rn_expr args) (rn_span rsp)
  | EIndex x lsp i rsp => EIndex (rn_expr x) (rn_span lsp) (rn_expr i) (rn_span rsp)
  end.

Definition rn_sort_term (t : sort_term) : sort_term :=
  mkSortTerm (rn_expr (st_x t)) (st_asc t) (rn_span (st_ascspan t)) (st_nullsfirst t) (rn_span (st_nullsspan t)).
Definition rn_proj_col (c : proj_col) : proj_col := mkProjCol (rn_ident (pc_name c)) (rn_span (pc_assign c)) (option_map rn_expr (pc_x c)).
Definition rn_ext_col (c : ext_col) : ext_col := mkExtCol (option_map rn_ident (ec_name c)) (rn_span (ec_assign c)) (rn_expr (ec_x c)).
Definition rn_render_prop (p : render_prop) : render_prop := mkRenderProp (rn_ident (rp_name p)) (rn_span (rp_assign p)) (rn_expr (rp_value p)).

Fixpoint rn_op (o : operator) : operator :=
  match o with
  | OCount p k => OCount (rn_span p) (rn_span k)
  | OWhere p k x => OWhere (rn_span p) (rn_span k) (rn_expr x)
  | OSort p k ts => OSort (rn_span p) (rn_span k) (map rn_sort_term ts)
  | OTake p k n => OTake (rn_span p) (rn_span k) (rn_expr n)
  | OTop p k n b c => OTop (rn_span p) (rn_span k) (rn_expr n) (rn_span b) (rn_sort_term c)
  | OProject p k cs => OProject (rn_span p) (rn_span k) (map rn_proj_col cs)
  | OExtend p k cs => OExtend (rn_span p) (rn_span k) (map rn_ext_col cs)
  | OSummarize p k cs b gs => OSummarize (rn_span p) (rn_span k) (map rn_ext_col cs) (rn_span b) (map rn_ext_col gs)
  | OJoin p k ks ka fl lp rsrc rops rp osp conds =>
      OJoin (rn_span p) (rn_span k) (rn_span ks) (rn_span ka) (option_map rn_ident fl) (rn_span lp)
            (rn_ident rsrc) (map rn_op rops) (rn_span rp) (rn_span osp) (map rn_expr conds)
  | OAs p k i => OAs (rn_span p) (rn_span k) (rn_ident i)
  | ORender p k ch w lp ps rp => ORender (rn_span p) (rn_span k) (rn_ident ch) (rn_span w) (rn_span lp) (map rn_render_prop ps) (rn_span rp)
  end.

Definition rn_tab (t : tabular) : tabular := mkTab (rn_ident (tsrc t)) (map rn_op (tops t)).
Definition rn_stmt (s : stmt) : stmt :=
  match s with
  | SLet k i a x => SLet (rn_span k) (rn_ident i) (rn_span a) (rn_expr x)
  | STab t => STab (rn_tab t)
  end.
Definition rn_prog (ss : list stmt) : list stmt := map rn_stmt ss.
Definition rn_toks (ts : list token) : list token := map rn_tok ts.

(** ** the token relation is natural *)
Lemma rn_tok_span t : tok_span (rn_tok t) = rn_span (tok_span t).
Proof. reflexivity. Qed.

Lemma rn_is_tok k sp t : is_tok k sp t -> is_tok k (rn_span sp) (rn_tok t).
Proof. intros [Hk Hs]. split; [exact Hk|]. rewrite rn_tok_span, Hs. reflexivity. Qed.

Lemma rn_kw_tok ws sp t : kw_tok ws sp t -> kw_tok ws (rn_span sp) (rn_tok t).
Proof. intros (Hk & Hv & Hs). repeat split; [exact Hk|exact Hv|]. rewrite rn_tok_span, Hs. reflexivity. Qed.

Lemma rn_kw_tok_self ws t : kw_tok ws (tok_span t) t -> kw_tok ws (tok_span (rn_tok t)) (rn_tok t).
Proof. intros H. apply (rn_kw_tok ws (tok_span t) t H). Qed.

Lemma rn_ident_tok i t : ident_tok i t -> ident_tok (rn_ident i) (rn_tok t).
Proof. intros (Hk & Hv & Hs). repeat split; cbn [rn_ident iquoted iname ispan]; [exact Hk|exact Hv|]. rewrite rn_tok_span, Hs. reflexivity. Qed.

Lemma rn_kind t : tkind (rn_tok t) = tkind t.
Proof. reflexivity. Qed.

Lemma rn_toks_app a b : rn_toks (a ++ b) = rn_toks a ++ rn_toks b.
Proof. apply map_app. Qed.

Ltac rn_norm := unfold rn_toks in *; repeat (rewrite ?map_app; cbn [map]); fold rn_toks.

Lemma rn_qual ps ts : toks_qual ps ts -> toks_qual (map rn_ident ps) (rn_toks ts).
Proof.
  induction 1 as [i t Hi|i t d r tr Hi Hd _ IH]; cbn [map rn_toks].
  - constructor. apply rn_ident_tok; exact Hi.
  - constructor; [apply rn_ident_tok; exact Hi|exact Hd|exact IH].
Qed.

Lemma map_not_nil {A B} (f : A -> B) l : l <> [] -> map f l <> [].
Proof. destruct l; [congruence|discriminate]. Qed.

Lemma rn_expr_all :
  (forall e ts, toks_expr e ts -> toks_expr (rn_expr e) (rn_toks ts)) /\
  (forall es ts, toks_list es ts -> toks_list (map rn_expr es) (rn_toks ts)) /\
  (forall es ts, toks_args es ts -> toks_args (map rn_expr es) (rn_toks ts)).
Proof.
  apply toks_expr_mutind.
  - intros ps ts H. cbn [rn_expr]. constructor. apply rn_qual; exact H.
  - intros sp k v t Hk Hkt Hv Hs. cbn [rn_expr rn_toks map]. constructor; [exact Hk|exact Hkt|exact Hv|rewrite rn_tok_span, Hs; reflexivity].
  - intros sp op x t tx Hop Ht _ IH. cbn [rn_expr rn_toks map]. constructor; [exact Hop|apply rn_is_tok; exact Ht|exact IH].
  - intros x sp op y tx t ty Hp Hin _ IHx Ht _ IHy. cbn [rn_expr]. rn_norm.
    constructor; [exact Hp|exact Hin|exact IHx|apply rn_is_tok; exact Ht|exact IHy].
  - intros x isp lsp vs rsp tx ti tl tvs tr _ IHx Hi Hl _ IHv Hne Hr. cbn [rn_expr]. rn_norm.
    constructor; [exact IHx|apply rn_is_tok; exact Hi|apply rn_is_tok; exact Hl|exact IHv|apply map_not_nil; exact Hne|apply rn_is_tok; exact Hr].
  - intros lsp x rsp tl tx tr Hl _ IH Hr. cbn [rn_expr]. rn_norm.
    constructor; [apply rn_is_tok; exact Hl|exact IH|apply rn_is_tok; exact Hr].
  - intros f lsp args rsp tf tl targs tr Hf Hq Hl _ IH Hr. cbn [rn_expr]. rn_norm.
    constructor; [apply rn_ident_tok; exact Hf|exact Hq|apply rn_is_tok; exact Hl|exact IH|apply rn_is_tok; exact Hr].
  - intros x lsp i rsp tx tl ti tr _ IHx Hl _ IHi Hr. cbn [rn_expr]. rn_norm.
    constructor; [exact IHx|apply rn_is_tok; exact Hl|exact IHi|apply rn_is_tok; exact Hr].
  - intros e te _ IH. cbn [map]. constructor. exact IH.
  - intros e te c r tr _ IHe Hc _ IHr Hne. cbn [map]. rn_norm. constructor; [exact IHe|exact Hc|exact IHr|apply map_not_nil; exact Hne].
  - constructor.
  - intros args ts _ IH Hne. apply ta_list; [exact IH|apply map_not_nil; exact Hne].
  - intros args ts c _ IH Hne Hc. rn_norm. apply ta_trailing; [exact IH|apply map_not_nil; exact Hne|exact Hc].
Qed.

Definition rn_expr_toks := proj1 rn_expr_all.
Definition rn_list_toks := proj1 (proj2 rn_expr_all).

Lemma rn_sep {A} (P : A -> list token -> Prop) (f : A -> A) :
  (forall a ta, P a ta -> P (f a) (rn_toks ta)) ->
  forall l ts, toks_sep P l ts -> toks_sep P (map f l) (rn_toks ts).
Proof.
  intros HP. induction 1 as [a ta Ha|a ta c r tr Ha Hc _ IH]; cbn [map].
  - constructor. apply HP; exact Ha.
  - rn_norm. constructor; [apply HP; exact Ha|exact Hc|exact IH].
Qed.

Lemma rn_dir asc sp dflt ts : toks_dir asc sp dflt ts -> toks_dir asc (rn_span sp) dflt (rn_toks ts).
Proof. intros [|sp0 t H|sp0 t H]; cbn [rn_toks map rn_span]; constructor; apply rn_kw_tok; exact H. Qed.

Lemma rn_nulls dflt nf sp ts : toks_nulls dflt nf sp ts -> toks_nulls dflt nf (rn_span sp) (rn_toks ts).
Proof.
  intros [|t t2 H1 H2|t t2 H1 H2]; cbn [rn_toks map rn_span].
  - constructor.
  - apply (tn_first dflt (rn_tok t) (rn_tok t2)); apply rn_kw_tok_self; assumption.
  - apply (tn_last dflt (rn_tok t) (rn_tok t2)); apply rn_kw_tok_self; assumption.
Qed.

Lemma rn_sort_term_toks t ts : toks_sort_term t ts -> toks_sort_term (rn_sort_term t) (rn_toks ts).
Proof.
  intros [x asc asp dflt nf nsp tx ta tn Hx Hd Hn]. unfold rn_sort_term. cbn [st_x st_asc st_ascspan st_nullsfirst st_nullsspan]. rn_norm.
  econstructor; [apply rn_expr_toks; exact Hx|apply rn_dir; exact Hd|apply rn_nulls; exact Hn].
Qed.

Lemma rn_ext_col_toks c ts : toks_ext_col c ts -> toks_ext_col (rn_ext_col c) (rn_toks ts).
Proof.
  intros [i asp x ti ta tx Hi Ha Hx|x tx Hx]; unfold rn_ext_col; cbn [ec_name ec_assign ec_x option_map rn_span rn_toks map].
  - constructor; [apply rn_ident_tok; exact Hi|apply rn_is_tok; exact Ha|apply rn_expr_toks; exact Hx].
  - constructor. apply rn_expr_toks; exact Hx.
Qed.

Lemma rn_proj_col_toks c ts : toks_proj_col c ts -> toks_proj_col (rn_proj_col c) (rn_toks ts).
Proof.
  intros [i ti Hi|i asp x ti ta tx Hi Ha Hx]; unfold rn_proj_col; cbn [pc_name pc_assign pc_x option_map rn_span rn_toks map].
  - constructor. apply rn_ident_tok; exact Hi.
  - constructor; [apply rn_ident_tok; exact Hi|apply rn_is_tok; exact Ha|apply rn_expr_toks; exact Hx].
Qed.

Lemma rn_render_prop_toks c ts : toks_render_prop c ts -> toks_render_prop (rn_render_prop c) (rn_toks ts).
Proof.
  intros [i asp x ti ta tx Hi Ha Hx]; unfold rn_render_prop; cbn [rp_name rp_assign rp_value rn_toks map].
  constructor; [apply rn_ident_tok; exact Hi|apply rn_is_tok; exact Ha|apply rn_expr_toks; exact Hx].
Qed.

Lemma rn_summ cols bsp gs ts : toks_summ cols bsp gs ts ->
  toks_summ (map rn_ext_col cols) (rn_span bsp) (map rn_ext_col gs) (rn_toks ts).
Proof.
  pose proof (rn_sep toks_ext_col rn_ext_col rn_ext_col_toks) as Hsep.
  intros [cols0 tc Hc|bsp0 gs0 b tg Hb Hg|cols0 bsp0 gs0 tc b tg Hc Hb Hg|cols0 bsp0 gs0 tc c b tg Hc Hcm Hb Hg]; rn_norm.
  - apply tsm_cols. apply Hsep; exact Hc.
  - apply tsm_by_only; [apply rn_is_tok; exact Hb|apply Hsep; exact Hg].
  - apply tsm_by; [apply Hsep; exact Hc|apply rn_is_tok; exact Hb|apply Hsep; exact Hg].
  - apply tsm_comma_by; [apply Hsep; exact Hc|exact Hcm|apply rn_is_tok; exact Hb|apply Hsep; exact Hg].
Qed.

Lemma rn_join_kind ksp asp fl ts : toks_join_kind ksp asp fl ts ->
  toks_join_kind (rn_span ksp) (rn_span asp) (option_map rn_ident fl) (rn_toks ts).
Proof.
  intros [|ksp0 asp0 fl0 tk ta tf Hk Ha Hf Hq Hj]; cbn [rn_toks map option_map rn_span].
  - constructor.
  - constructor; [apply rn_kw_tok; exact Hk|apply rn_is_tok; exact Ha|apply rn_ident_tok; exact Hf|exact Hq|exact Hj].
Qed.

Lemma rn_render_with wsp lsp props rsp ts : toks_render_with wsp lsp props rsp ts ->
  toks_render_with (rn_span wsp) (rn_span lsp) (map rn_render_prop props) (rn_span rsp) (rn_toks ts).
Proof.
  intros [|wsp0 lsp0 props0 rsp0 tw tl tp tr Hw Hl Hp Hr]; rn_norm.
  - constructor.
  - constructor; [apply rn_kw_tok; exact Hw|apply rn_is_tok; exact Hl|apply (rn_sep toks_render_prop rn_render_prop rn_render_prop_toks); exact Hp|apply rn_is_tok; exact Hr].
Qed.

Lemma rn_op_all :
  (forall o ts, toks_op o ts -> toks_op (rn_op o) (rn_toks ts)) /\
  (forall os ts, toks_ops os ts -> toks_ops (map rn_op os) (rn_toks ts)).
Proof.
  apply toks_op_mutind.
  - intros psp ksp p n Hp Hn. cbn [rn_op rn_toks map]. constructor; [apply rn_is_tok; exact Hp|apply rn_kw_tok; exact Hn].
  - intros psp ksp x p n tx Hp Hn Hx. cbn [rn_op rn_toks map]. constructor; [apply rn_is_tok; exact Hp|apply rn_kw_tok; exact Hn|apply rn_expr_toks; exact Hx].
  - intros psp terms p n b tt Hp Hn Hb Ht. cbn [rn_op rn_toks map rn_span].
    apply (to_sort (rn_span psp) (map rn_sort_term terms) (rn_tok p) (rn_tok n) (rn_tok b));
      [apply rn_is_tok; exact Hp|apply rn_kw_tok_self; exact Hn|exact Hb|apply (rn_sep toks_sort_term rn_sort_term rn_sort_term_toks); exact Ht].
  - intros psp ksp x p n tx Hp Hn Hx. cbn [rn_op rn_toks map]. constructor; [apply rn_is_tok; exact Hp|apply rn_kw_tok; exact Hn|apply rn_expr_toks; exact Hx].
  - intros psp ksp x bsp col p n tx b tc Hp Hn Hx Hb Hc. cbn [rn_op]. rn_norm.
    constructor; [apply rn_is_tok; exact Hp|apply rn_kw_tok; exact Hn|apply rn_expr_toks; exact Hx|apply rn_is_tok; exact Hb|apply rn_sort_term_toks; exact Hc].
  - intros psp ksp cols p n tc Hp Hn Hc. cbn [rn_op rn_toks map]. constructor; [apply rn_is_tok; exact Hp|apply rn_kw_tok; exact Hn|apply (rn_sep toks_proj_col rn_proj_col rn_proj_col_toks); exact Hc].
  - intros psp ksp cols p n tc Hp Hn Hc. cbn [rn_op rn_toks map]. constructor; [apply rn_is_tok; exact Hp|apply rn_kw_tok; exact Hn|apply (rn_sep toks_ext_col rn_ext_col rn_ext_col_toks); exact Hc].
  - intros psp ksp cols bsp gs p n body Hp Hn Hb. cbn [rn_op rn_toks map]. constructor; [apply rn_is_tok; exact Hp|apply rn_kw_tok; exact Hn|apply rn_summ; exact Hb].
  - intros psp ksp kindsp kasp flavor lsp rsrc rops rsp osp conds p n tk tl tsrc0 tro tr ton tc Hp Hn Hk Hl Hs _ IH Hr Hon Hc Hne.
    cbn [rn_op]. rn_norm.
    apply (to_join (rn_span psp) (rn_span ksp) (rn_span kindsp) (rn_span kasp) (option_map rn_ident flavor) (rn_span lsp) (rn_ident rsrc)
             (map rn_op rops) (rn_span rsp) (rn_span osp) (map rn_expr conds) (rn_tok p) (rn_tok n) (rn_toks tk) (rn_tok tl) (rn_tok tsrc0)
             (rn_toks tro) (rn_tok tr) (rn_tok ton) (rn_toks tc));
      [apply rn_is_tok; exact Hp|apply rn_kw_tok; exact Hn|apply rn_join_kind; exact Hk|apply rn_is_tok; exact Hl|apply rn_ident_tok; exact Hs|exact IH
      |apply rn_is_tok; exact Hr|apply rn_kw_tok; exact Hon|apply rn_list_toks; exact Hc|apply map_not_nil; exact Hne].
  - intros psp ksp i p n ti Hp Hn Hi. cbn [rn_op rn_toks map]. constructor; [apply rn_is_tok; exact Hp|apply rn_kw_tok; exact Hn|apply rn_ident_tok; exact Hi].
  - intros psp ksp chart wsp lsp props rsp p n tch tw Hp Hn Hc Hw. cbn [rn_op rn_toks map].
    constructor; [apply rn_is_tok; exact Hp|apply rn_kw_tok; exact Hn|apply rn_ident_tok; exact Hc|apply rn_render_with; exact Hw].
  - constructor.
  - intros o to os tos _ IHo _ IHos. cbn [map]. rn_norm. constructor; [exact IHo|exact IHos].
Qed.

Lemma rn_stmt_toks s ts : toks_stmt s ts -> toks_stmt (rn_stmt s) (rn_toks ts).
Proof.
  intros [ksp i asp x tk ti ta tx Hk Hi Ha Hx|t ts0 (tsrc0 & tro & -> & Hs & Ho)]; cbn [rn_stmt rn_toks map].
  - constructor; [apply rn_kw_tok; exact Hk|apply rn_ident_tok; exact Hi|apply rn_is_tok; exact Ha|apply rn_expr_toks; exact Hx].
  - constructor. exists (rn_tok tsrc0), (rn_toks tro). split; [reflexivity|]. split; [apply rn_ident_tok; exact Hs|apply (proj2 rn_op_all); exact Ho].
Qed.

Theorem rn_prog_toks ss ts : toks_prog ss ts -> toks_prog (rn_prog ss) (rn_toks ts).
Proof.
  induction 1 as [|semi ss rest Hsemi _ IH|s ts Hs|s ts semi ss rest Hs Hsemi _ IH]; cbn [rn_prog map].
  - constructor.
  - cbn [rn_toks map]. apply tp_empty; [exact Hsemi|exact IH].
  - apply tp_last. apply rn_stmt_toks; exact Hs.
  - rn_norm. apply tp_cons; [apply rn_stmt_toks; exact Hs|exact Hsemi|exact IH].
Qed.

(** ** the grammar does not look at offsets *)
Lemma rn_is_inner e : is_inner (rn_expr e) = is_inner e.
Proof. destruct e; reflexivity. Qed.
Lemma rn_is_primary e : is_primary (rn_expr e) = is_primary e.
Proof. destruct e; cbn [rn_expr is_primary]; try reflexivity. apply rn_is_inner. Qed.
Lemma rn_hi e : hi (rn_expr e) = hi e.
Proof. destruct e; reflexivity. Qed.
Lemma rn_lo e : lo (rn_expr e) = lo e.
Proof. revert e. fix IH 1. intros e. destruct e as [ps|x sp op y|sp op x|x isp lsp vs rsp|lsp x rsp|sp k v|f lsp args rsp|x lsp i rsp]; cbn [rn_expr lo]; try reflexivity; rewrite (IH x); reflexivity. Qed.

Lemma rn_gexpr : forall e, gexpr (rn_expr e) = gexpr e.
Proof.
  fix IH 1. intros e. destruct e as [ps|x sp op y|sp op x|x isp lsp vs rsp|lsp x rsp|sp k v|f lsp args rsp|x lsp i rsp]; cbn [rn_expr gexpr].
  - reflexivity.
  - rewrite (IH x), (IH y), rn_hi, rn_lo. reflexivity.
  - rewrite (IH x), rn_is_primary. reflexivity.
  - rewrite (IH x), rn_hi. f_equal. f_equal. induction vs as [|v vs IHv]; cbn [map forallb]; [reflexivity|]. rewrite (IH v), IHv. reflexivity.
  - apply IH.
  - reflexivity.
  - induction args as [|a args IHa]; cbn [map forallb]; [reflexivity|]. rewrite (IH a), IHa. reflexivity.
  - rewrite (IH x), (IH i), rn_is_inner. reflexivity.
Qed.

Lemma forallb_map_eq {A} (p : A -> bool) (f : A -> A) l : (forall a, p (f a) = p a) -> forallb p (map f l) = forallb p l.
Proof. intros H. induction l as [|a l IH]; cbn [map forallb]; [reflexivity|]. rewrite H, IH. reflexivity. Qed.

Lemma rn_grow_count x : grow_count (rn_expr x) = grow_count x.
Proof. unfold grow_count. rewrite rn_gexpr. destruct x; reflexivity. Qed.
Lemma rn_gsort_term t : gsort_term (rn_sort_term t) = gsort_term t.
Proof. unfold gsort_term, rn_sort_term. cbn [st_x]. apply rn_gexpr. Qed.
Lemma rn_gext_col c : gext_col (rn_ext_col c) = gext_col c.
Proof. unfold gext_col, rn_ext_col. cbn [ec_x]. apply rn_gexpr. Qed.
Lemma rn_gproj_col c : gproj_col (rn_proj_col c) = gproj_col c.
Proof. unfold gproj_col, rn_proj_col. cbn [pc_x]. destruct (pc_x c); cbn [option_map]; [apply rn_gexpr|reflexivity]. Qed.
Lemma rn_grender_prop c : grender_prop (rn_render_prop c) = grender_prop c.
Proof. unfold grender_prop, rn_render_prop. cbn [rp_value]. apply rn_gexpr. Qed.

Lemma rn_gop : forall o, gop (rn_op o) = gop o.
Proof.
  fix IH 1. intros o. destruct o; cbn [rn_op gop].
  - reflexivity.
  - apply rn_gexpr.
  - apply forallb_map_eq, rn_gsort_term.
  - apply rn_grow_count.
  - rewrite rn_grow_count, rn_gsort_term. reflexivity.
  - apply forallb_map_eq, rn_gproj_col.
  - apply forallb_map_eq, rn_gext_col.
  - rewrite !(forallb_map_eq gext_col rn_ext_col) by apply rn_gext_col. reflexivity.
  - rewrite (forallb_map_eq gexpr rn_expr) by apply rn_gexpr. f_equal.
    induction rops as [|r rops IHr]; cbn [map forallb]; [reflexivity|]. rewrite (IH r), IHr. reflexivity.
  - reflexivity.
  - apply forallb_map_eq, rn_grender_prop.
Qed.

Lemma rn_gstmt s : gstmt (rn_stmt s) = gstmt s.
Proof.
  destruct s as [k i a x|t]; cbn [rn_stmt gstmt]; [apply rn_gexpr|].
  unfold rn_tab. cbn [tsrc tops]. rewrite (forallb_map_eq gop rn_op) by apply rn_gop. reflexivity.
Qed.

Theorem rn_gprog ss : gprog (rn_prog ss) = gprog ss.
Proof. unfold gprog, rn_prog. apply forallb_map_eq, rn_gstmt. Qed.

End Rename.

(** ** the renaming between two layouts of the same tokens *)
Definition same_kv (ts ts' : list token) : Prop :=
  Forall2 (fun t t' => tkind t = tkind t' /\ tvalue t = tvalue t') ts ts'.

Fixpoint lookup (tbl : list (nat * nat)) (a : nat) : nat :=
  match tbl with
  | [] => a
  | (x, y) :: r => if Nat.eqb x a then y else lookup r a
  end.

(** start (end) offset of the i-th token of the first layout to that of the i-th token of the second *)
Definition starts_map (ts ts' : list token) : nat -> nat := lookup (combine (map tstart ts) (map tstart ts')).
Definition ends_map (ts ts' : list token) : nat -> nat := lookup (combine (map tend ts) (map tend ts')).

Lemma lookup_combine : forall xs ys, NoDup xs -> length xs = length ys -> map (lookup (combine xs ys)) xs = ys.
Proof.
  induction xs as [|x xs IH]; intros [|y ys] Hnd Hlen; try discriminate; [reflexivity|].
  cbn [combine map lookup]. rewrite Nat.eqb_refl. f_equal.
  inversion Hnd as [|? ? Hnotin Hnd']; subst.
  transitivity (map (lookup (combine xs ys)) xs); [|apply IH; [exact Hnd'|cbn [length] in Hlen; lia]].
  apply map_ext_in. intros a Ha. destruct (Nat.eqb x a) eqn:E; [|reflexivity].
  apply Nat.eqb_eq in E. subst a. contradiction.
Qed.

Lemma within_starts_lt lo hi ts : toks_within lo hi ts -> Forall (fun t => lo <= tstart t /\ lo < tend t) ts.
Proof.
  induction 1 as [|lo hi t ts H1 H2 H3 _ IH]; constructor; [lia|].
  eapply Forall_impl; [|exact IH]. cbn beta. intros a [Ha Hb]. lia.
Qed.

Lemma within_nodup lo hi ts : toks_within lo hi ts -> NoDup (map tstart ts) /\ NoDup (map tend ts).
Proof.
  induction 1 as [|lo hi t ts H1 H2 H3 Hw [IH1 IH2]]; cbn [map]; [split; constructor|].
  pose proof (within_starts_lt _ _ _ Hw) as Hall. rewrite Forall_forall in Hall.
  split; constructor; try assumption; intros Hin; apply in_map_iff in Hin as (u & Hu & Hin); specialize (Hall u Hin); lia.
Qed.

Lemma rn_toks_between fs fe ts ts' : same_kv ts ts' ->
  map fs (map tstart ts) = map tstart ts' -> map fe (map tend ts) = map tend ts' -> rn_toks fs fe ts = ts'.
Proof.
  induction 1 as [|t t' ts ts' [Hk Hv] _ IH]; cbn [map rn_toks]; intros Hs He; [reflexivity|].
  injection Hs as Hs1 Hs2. injection He as He1 He2. f_equal; [|apply IH; assumption].
  destruct t as [k a b v], t' as [k' a' b' v']. unfold rn_tok. cbn [tkind tstart tend tvalue] in *. congruence.
Qed.

Lemma same_kv_length ts ts' : same_kv ts ts' -> length ts = length ts'.
Proof. induction 1; cbn [length]; congruence. Qed.

Lemma same_kv_sym ts ts' : same_kv ts ts' -> same_kv ts' ts.
Proof. induction 1 as [|t t' ts ts' [Hk Hv] _ IH]; constructor; [split; congruence|exact IH]. Qed.

Theorem rn_toks_scan s s' : same_kv (scan s) (scan s') ->
  rn_toks (starts_map (scan s) (scan s')) (ends_map (scan s) (scan s')) (scan s) = scan s'.
Proof.
  intros H. pose proof (same_kv_length _ _ H) as Hlen.
  destruct (within_nodup _ _ _ (scan_within s)) as [Hn1 Hn2].
  apply rn_toks_between; [exact H| |]; unfold starts_map, ends_map; apply lookup_combine; try assumption; rewrite !map_length; exact Hlen.
Qed.

(** ** layout independence of the tree *)
Theorem parse_relayout s s' ss : same_kv (scan s) (scan s') -> parse s = ParseOk ss ->
  parse s' = ParseOk (rn_prog (starts_map (scan s) (scan s')) (ends_map (scan s) (scan s')) ss).
Proof.
  intros Hkv Hp. apply parse_characterised in Hp as [Ht Hg]. apply parse_characterised. split.
  - pose proof (rn_prog_toks (starts_map (scan s) (scan s')) (ends_map (scan s) (scan s')) ss (scan s) Ht) as H.
    rewrite (rn_toks_scan s s' Hkv) in H. exact H.
  - rewrite rn_gprog. exact Hg.
Qed.

Theorem parse_relayout_iff s s' : same_kv (scan s) (scan s') ->
  ((exists ss, parse s = ParseOk ss) <-> (exists ss', parse s' = ParseOk ss')).
Proof.
  intros Hkv. split; intros [ss Hp].
  - eexists. eapply parse_relayout; eassumption.
  - eexists. eapply parse_relayout; [apply same_kv_sym; exact Hkv|exact Hp].
Qed.

(** ** any spaced layout of a source's token texts parses to the same tree *)
Lemma same_kv_of_maps (ts ts' : list token) :
  map (fun t => (tkind t, tvalue t)) ts = map (fun t => (tkind t, tvalue t)) ts' -> same_kv ts ts'.
Proof.
  revert ts'. induction ts as [|t ts IH]; intros [|t' ts'] H; try discriminate; [constructor|].
  cbn [map] in H. injection H as Hk Hv Hr. constructor; [split; assumption|apply IH; exact Hr].
Qed.

Lemma items_kv s : forall (ts : list token) items, (forall t, In t ts -> In t (scan s)) ->
  Forall (fun i => let '(x, k, v) := i in item_ok x k v) items ->
  map (fun i : str * kind * str => fst (fst i)) items = map (tok_text s) ts ->
  map (fun i : str * kind * str => (snd (fst i), snd i)) items = map (fun t => (tkind t, tvalue t)) ts.
Proof.
  induction ts as [|t ts IH]; intros [|[[x k] v] items] Hin Hok Hm; try discriminate; [reflexivity|].
  cbn [map fst snd] in *. injection Hm as Hx Hm. inversion Hok as [|? ? Hi Hok']; subst. cbv beta iota in Hi. destruct Hi as [Hl _].
  pose proof (token_kv_of_text s t (Hin t (or_introl eq_refl))) as Ht. rewrite Hl in Ht. injection Ht as -> ->.
  f_equal. apply IH; [intros u Hu; apply Hin; right; exact Hu|exact Hok'|exact Hm].
Qed.

Lemma spaced_items_ok items body : spaced items body -> Forall (fun i => let '(x, k, v) := i in item_ok x k v) items.
Proof. induction 1; [constructor|constructor; [assumption|constructor]|constructor; assumption]. Qed.

Lemma kvl_kv (ts : list token) (items : list (str * kind * str)) : map tok_kvl ts = map item_kvl items ->
  map (fun t => (tkind t, tvalue t)) ts = map (fun i : str * kind * str => (snd (fst i), snd i)) items.
Proof.
  revert items. induction ts as [|t ts IH]; intros [|[[x k] v] items] H; try discriminate; [reflexivity|].
  cbn [map] in *. injection H as Hk Hv _ Hr. cbn [fst snd]. f_equal; [congruence|apply IH; exact Hr].
Qed.

(** C07, layout: take the token texts of a source [s] in order; lay them out again with any gap in
    front, gaps that begin with a white-space byte between them and optionally after the last one
    (further white space and // comments inside the gaps at will).  The new source has the same
    kinds and values of tokens, so it parses exactly when [s] does, to the same tree with the
    recorded offsets renamed token by token. *)
Theorem spaced_same_kv s g0 items body : gap g0 -> spaced items body ->
  map (fun i : str * kind * str => fst (fst i)) items = map (tok_text s) (scan s) ->
  same_kv (scan s) (scan (g0 ++ body)).
Proof.
  intros Hg Hs Hm. apply same_kv_of_maps.
  rewrite (kvl_kv _ _ (scan_spaced g0 items body Hg Hs)).
  symmetry. apply (items_kv s (scan s) items); [auto|apply (spaced_items_ok _ _ Hs)|exact Hm].
Qed.

Theorem parse_spaced s ss g0 items body : gap g0 -> spaced items body ->
  map (fun i : str * kind * str => fst (fst i)) items = map (tok_text s) (scan s) ->
  parse s = ParseOk ss ->
  parse (g0 ++ body) = ParseOk (rn_prog (starts_map (scan s) (scan (g0 ++ body))) (ends_map (scan s) (scan (g0 ++ body))) ss).
Proof. intros Hg Hs Hm Hp. apply parse_relayout; [eapply spaced_same_kv; eassumption|exact Hp]. Qed.

(** two sources with the same token texts parse alike *)
Theorem parse_same_texts s1 s2 ss : map (tok_text s1) (scan s1) = map (tok_text s2) (scan s2) ->
  parse s1 = ParseOk ss ->
  parse s2 = ParseOk (rn_prog (starts_map (scan s1) (scan s2)) (ends_map (scan s1) (scan s2)) ss).
Proof. intros Hm Hp. apply parse_relayout; [apply same_texts_same_kv; exact Hm|exact Hp]. Qed.
