(** * NoSemi: no token of a statement is a semicolon (so [split_semi] cuts a program exactly at
    the semicolons between its statements).  Same argument as Proofs/ParserReject.v, for `;`. *)
From PQL Require Import Spec.FlattenStmt Proofs.ParserSound Proofs.ParserSoundStmt Proofs.ParserReject.
From Coq Require Import Lia ZArith.
Local Open Scope list_scope.
Local Open Scope nat_scope.

Definition nosemi_tok (t : token) : Prop := tkind t <> KSemi.
Definition all_nosemi (ts : list token) : Prop := Forall nosemi_tok ts.


Ltac nosemik :=
  unfold nosemi_tok;
  match goal with
  | H : is_tok _ _ ?t |- tkind ?t <> _ => destruct H as [H _]; rewrite H; discriminate
  | H : kw_tok _ _ ?t |- tkind ?t <> _ => destruct H as [H _]; rewrite H; discriminate
  | H : ident_tok ?i ?t |- tkind ?t <> _ => destruct H as [H _]; rewrite H; destruct (iquoted i); discriminate
  | H : tkind ?t = _ |- tkind ?t <> _ => rewrite H; discriminate
  end.

Ltac fns := unfold all_nosemi in *; repeat first [ assumption | apply Forall_nil | apply Forall_cons | apply Forall_app; split | nosemik ].

Lemma qual_nosemi ps ts : toks_qual ps ts -> all_nosemi ts.
Proof. induction 1; fns. Qed.

Lemma prec_not_semi op : (0 <= op_prec op)%Z -> op <> KSemi.
Proof. intros H ->. vm_compute in H. apply H. reflexivity. Qed.

Lemma expr_nosemi : (forall e ts, toks_expr e ts -> all_nosemi ts) /\ (forall l ts, toks_list l ts -> all_nosemi ts) /\ (forall l ts, toks_args l ts -> all_nosemi ts).
Proof.
  apply toks_expr_mutind; intros; try (fns; fail).
  - eapply qual_nosemi; eassumption.
  - fns. unfold nosemi_tok. match goal with Hk : tkind ?t = ?k, Hor : ?k = KNumber \/ _ |- tkind ?t <> _ => rewrite Hk; destruct Hor; subst; discriminate end.
  - fns. unfold nosemi_tok. match goal with Ht : is_tok ?op _ ?t, Hor : ?op = KPlus \/ _ |- tkind ?t <> _ => destruct Ht as [Ht _]; rewrite Ht; destruct Hor; subst; discriminate end.
  - fns. unfold nosemi_tok. match goal with Ht : is_tok ?op _ ?t, Hp : (0 <= op_prec ?op)%Z |- tkind ?t <> _ => destruct Ht as [Ht _]; rewrite Ht; apply prec_not_semi; exact Hp end.
Qed.

Lemma sep_nosemi {A} (P : A -> list token -> Prop) : (forall a ts, P a ts -> all_nosemi ts) -> forall l ts, toks_sep P l ts -> all_nosemi ts.
Proof. intros HP l ts H. induction H; [eapply HP; eassumption|]. apply HP in H. fns. Qed.

Lemma sort_term_nosemi t ts : toks_sort_term t ts -> all_nosemi ts.
Proof.
  intros H. destruct H as [x asc asp dflt nf nsp tx ta tn Hx Hd Hn]. apply expr_nosemi in Hx.
  destruct Hd; destruct Hn; fns.
Qed.

Lemma ext_col_nosemi c ts : toks_ext_col c ts -> all_nosemi ts.
Proof. intros H. destruct H as [i asp x ti ta tx Hi Ha Hx|x tx Hx]; apply expr_nosemi in Hx; fns. Qed.

Lemma proj_col_nosemi c ts : toks_proj_col c ts -> all_nosemi ts.
Proof. intros H. destruct H as [i ti Hi|i asp x ti ta tx Hi Ha Hx]; [fns|apply expr_nosemi in Hx; fns]. Qed.

Lemma render_prop_nosemi c ts : toks_render_prop c ts -> all_nosemi ts.
Proof. intros H. destruct H as [i asp x ti ta tx Hi Ha Hx]. apply expr_nosemi in Hx. fns. Qed.

Lemma summ_nosemi cols bsp gs ts : toks_summ cols bsp gs ts -> all_nosemi ts.
Proof.
  intros H. destruct H;
    repeat match goal with H : toks_sep toks_ext_col _ _ |- _ => apply (sep_nosemi _ ext_col_nosemi) in H end; fns.
Qed.

Lemma op_nosemi : (forall o ts, toks_op o ts -> all_nosemi ts) /\ (forall l ts, toks_ops l ts -> all_nosemi ts).
Proof.
  apply toks_op_mutind; intros;
    repeat match goal with
    | H : toks_expr _ _ |- _ => apply expr_nosemi in H
    | H : toks_list _ _ |- _ => apply expr_nosemi in H
    | H : toks_sort_term _ _ |- _ => apply sort_term_nosemi in H
    | H : toks_sep toks_sort_term _ _ |- _ => apply (sep_nosemi _ sort_term_nosemi) in H
    | H : toks_sep toks_ext_col _ _ |- _ => apply (sep_nosemi _ ext_col_nosemi) in H
    | H : toks_sep toks_proj_col _ _ |- _ => apply (sep_nosemi _ proj_col_nosemi) in H
    | H : toks_summ _ _ _ _ |- _ => apply summ_nosemi in H
    end; try (fns; fail).
  - (* join *) destruct H1; fns.
  - (* render *) destruct H2; [fns|]. apply (sep_nosemi _ render_prop_nosemi) in H4. fns.
Qed.

Lemma stmt_nosemi s ts : toks_stmt s ts -> all_nosemi ts.
Proof.
  intros H. destruct H as [ksp i asp x tk ti ta tx Hk Hi Ha Hx|t ts (tsrc0 & tro & -> & Hs & Ho)].
  - apply expr_nosemi in Hx. fns.
  - apply op_nosemi in Ho. fns.
Qed.

