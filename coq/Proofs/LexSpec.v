(** * LexSpec (C09): what the tokens are.
    - between tokens there is only white space and // comments;
    - an identifier token is the longest run [A-Za-z_$][A-Za-z0-9_]* at its position, its value is
      its text, and the four keywords and/or/in/by get their own kinds;
    - a backtick-quoted name of any bytes but a newline lexes back to exactly that name;
    - a hexadecimal literal's value is the decimal spelling of the same number;
    - a decimal literal is normalised by removing leading zeros (and writing one before a `.`/`e`);
    - the one- and two-character operators. *)
From PQL Require Import Model.Lexer Proofs.LexerFacts Proofs.SplitFacts Proofs.LexCut Proofs.ScanCut.
From Coq Require Import Lia ZifyBool ZifyNat ZifyN String.
Local Open Scope list_scope.
Local Open Scope nat_scope.
Local Notation length := List.length (only parsing).

(** ** layout: the only things the scanner skips *)
Definition layout_item (l : str) (n : nat) : Prop :=
  (is_space (fst (decode l)) = true /\ n = snd (decode l))
  \/ (exists r, l = 47%N :: 47%N :: r /\ n = 2 + comment_len r).

Lemma lex1_skip l n : l <> [] -> lex1 l = Skip n -> layout_item l n.
Proof.
  intros Hne. destruct l as [|b r]; [congruence|]. unfold lex1, layout_item.
  destruct (decode (b :: r)) as [c w] eqn:Ed. cbn [fst snd].
  destruct (is_space c) eqn:Es; [intros [= <-]; left; split; reflexivity|].
  destruct (is_ident_start c) eqn:Eis.
  { unfold lex_ident. destruct (keyword_kind _); discriminate. }
  destruct (is_digit c || (c =? 46)%N) eqn:En.
  { unfold lex_number. destruct (b =? 48)%N.
    - destruct r as [|c1 r1]; [discriminate|].
      destruct (c1 =? 46)%N; [discriminate|]. destruct ((c1 =? 101)%N || (c1 =? 69)%N); [discriminate|].
      destruct ((c1 =? 120)%N || (c1 =? 88)%N).
      + destruct (take_while is_hex_digit r1); [discriminate|]. destruct (_ <? _)%N; discriminate.
      + destruct (is_digit c1); discriminate.
    - destruct (b =? 46)%N; [|discriminate]. destruct r as [|d r1]; [discriminate|]. destruct (is_digit d); discriminate. }
  destruct (c =? 44)%N; [discriminate|].
  destruct ((c =? 34)%N || (c =? 39)%N).
  { unfold lex_string. destruct (string_body _ _ _ _) as [[v|] m]; discriminate. }
  destruct (c =? 96)%N.
  { unfold lex_quoted. destruct (quoted_body _ _) as [[v|] m]; discriminate. }
  destruct (c =? 124)%N; [discriminate|]. destruct (c =? 40)%N; [discriminate|]. destruct (c =? 41)%N; [discriminate|].
  destruct (c =? 91)%N; [discriminate|]. destruct (c =? 93)%N; [discriminate|].
  destruct (c =? 61)%N.
  { destruct r as [|c2 r']; [discriminate|]. destruct (c2 =? 61)%N; [discriminate|]. destruct (c2 =? 126)%N; discriminate. }
  destruct (c =? 33)%N.
  { destruct r as [|c2 r']; [discriminate|]. destruct (c2 =? 61)%N; [discriminate|]. destruct (c2 =? 126)%N; discriminate. }
  destruct (c =? 43)%N; [discriminate|]. destruct (c =? 45)%N; [discriminate|]. destruct (c =? 42)%N; [discriminate|].
  destruct (c =? 47)%N eqn:Esl.
  { destruct r as [|c2 r']; [discriminate|]. destruct (c2 =? 47)%N eqn:E2; [|discriminate].
    intros [= <-]. right. exists r'. split; [|reflexivity].
    apply N.eqb_eq in Esl, E2. subst c c2.
    destruct (decode_small b _ _ _ Ed ltac:(lia)) as [Hb _].
    rewrite Hb. reflexivity. }
  destruct (c =? 37)%N; [discriminate|].
  destruct (c =? 60)%N.
  { destruct r as [|c2 r']; [discriminate|]. destruct (c2 =? 61)%N; discriminate. }
  destruct (c =? 62)%N.
  { destruct r as [|c2 r']; [discriminate|]. destruct (c2 =? 61)%N; discriminate. }
  destruct (c =? 59)%N; discriminate.
Qed.

(** the source is covered, in order, by tokens and layout items and nothing else *)
Inductive covers : nat -> str -> list token -> Prop :=
| cv_nil off : covers off [] []
| cv_tok off l k v n ts : l <> [] -> lex1 l = Tok k v n -> covers (n + off) (skipn n l) ts ->
    covers off l (mkTok k off (n + off) v :: ts)
| cv_skip off l n ts : l <> [] -> lex1 l = Skip n -> layout_item l n -> covers (n + off) (skipn n l) ts ->
    covers off l ts.

Theorem scan_from_covers : forall f off l, length l < f -> covers off l (scan_from f off l).
Proof.
  induction f as [|f IH]; intros off l Hf; [lia|]. cbn [scan_from].
  destruct l as [|b r] eqn:El; [constructor|]. rewrite <- El in *.
  assert (Hne : l <> []) by (subst l; congruence).
  pose proof (lex1_progress l Hne) as Hp.
  destruct (lex1 l) as [k v n|n] eqn:Elex; cbn [item_len] in Hp.
  - apply cv_tok; [exact Hne|exact Elex|]. apply IH. rewrite skipn_length. lia.
  - eapply cv_skip; [exact Hne|exact Elex|apply lex1_skip; assumption|]. apply IH. rewrite skipn_length. lia.
Qed.

Theorem scan_covers s : covers 0 s (scan s).
Proof. apply scan_from_covers. lia. Qed.

(** ** identifiers and keywords *)
Lemma ascii_decode b r : (b < 128)%N -> decode (b :: r) = (b, 1).
Proof. intros H. unfold decode. apply N.ltb_lt in H. rewrite H. reflexivity. Qed.

Lemma ident_start_ascii c : is_ident_start c = true -> (c < 128)%N.
Proof. unfold is_ident_start, is_alpha, in_range. lia. Qed.

Lemma ident_start_not_space c : is_ident_start c = true -> is_space c = false.
Proof. unfold is_ident_start, is_alpha, is_space, in_range. lia. Qed.

Lemma take_while_all p l : forallb p (take_while p l) = true.
Proof. induction l as [|c r IH]; cbn [take_while forallb]; [reflexivity|]. destruct (p c) eqn:E; cbn [forallb]; [rewrite E; exact IH|reflexivity]. Qed.

Lemma take_while_stop p l : match skipn (length (take_while p l)) l with [] => True | c :: _ => p c = false end.
Proof. induction l as [|c r IH]; cbn [take_while]; [exact I|]. destruct (p c) eqn:E; cbn [length skipn]; [exact IH|exact E]. Qed.

Lemma take_while_prefix p l : firstn (length (take_while p l)) l = take_while p l.
Proof. induction l as [|c r IH]; cbn [take_while]; [reflexivity|]. destruct (p c); cbn [length firstn]; [rewrite IH; reflexivity|reflexivity]. Qed.

(** the identifier at the head of [b :: r]: the longest run of identifier characters, which is the
    token's text; its value is that text unless it is one of the keywords of the generated table *)
Theorem ident_spec b r : is_ident_start b = true ->
  let run := b :: take_while is_ident_char r in
  lex1 (b :: r) = (match keyword_kind run with Some k => Tok k [] (length run) | None => Tok KIdentifier run (length run) end)
  /\ firstn (length run) (b :: r) = run
  /\ forallb is_ident_char (take_while is_ident_char r) = true
  /\ match skipn (length run) (b :: r) with [] => True | c :: _ => is_ident_char c = false end.
Proof.
  intros Hb. cbn zeta. split; [|split; [|split]].
  - unfold lex1. rewrite (ascii_decode b r (ident_start_ascii b Hb)), (ident_start_not_space b Hb), Hb. reflexivity.
  - cbn [length firstn]. rewrite take_while_prefix. reflexivity.
  - apply take_while_all.
  - cbn [length skipn]. apply take_while_stop.
Qed.

(** the keywords are exactly and, or, in, by (generated table) *)
Lemma keywords_documented :
  keyword_kind (L "and") = Some KAnd /\ keyword_kind (L "or") = Some KOr /\ keyword_kind (L "in") = Some KIn /\
  keyword_kind (L "by") = Some KBy /\ length keywords = 4.
Proof. vm_compute. repeat split. Qed.

(** ** backtick-quoted names: the quoted form of any name without a newline lexes back to it *)
Fixpoint bq_body (s : str) : str :=
  match s with [] => [] | c :: r => if (c =? 96)%N then 96%N :: 96%N :: bq_body r else c :: bq_body r end.
Definition bq_quote (s : str) : str := 96%N :: bq_body s ++ [96%N].

Definition no_newline (s : str) : Prop := forallb (fun c => negb (c =? 10)%N) s = true.

Lemma quoted_body_bq s : no_newline s -> forall rest f, (match rest with c :: _ => c <> 96%N | [] => True end) ->
  length (bq_body s ++ 96%N :: rest) < f ->
  quoted_body f (bq_body s ++ 96%N :: rest) = (Some (bq_body s), S (length (bq_body s))).
Proof.
  unfold no_newline. induction s as [|c r IH]; intros Hnl rest f Hrest Hf; cbn [bq_body app forallb] in *.
  - destruct f as [|f]; [lia|]. cbn [quoted_body]. rewrite ?N.eqb_refl.
    destruct rest as [|c2 r2]; [reflexivity|]. apply N.eqb_neq in Hrest. rewrite Hrest. reflexivity.
  - apply andb_prop in Hnl as [Hc Hr]. apply Bool.negb_true_iff in Hc.
    destruct (c =? 96)%N eqn:E96.
    + destruct f as [|f]; [cbn [length app] in Hf; lia|]. cbn [app quoted_body]. rewrite ?N.eqb_refl.
      rewrite (IH Hr rest f Hrest) by (cbn [length app] in Hf; lia). cbn [option_map length]. reflexivity.
    + destruct f as [|f]; [cbn [length app] in Hf; lia|]. cbn [app quoted_body]. rewrite E96, Hc.
      rewrite (IH Hr rest f Hrest) by (cbn [length app] in Hf; lia). cbn [option_map length]. reflexivity.
Qed.

Lemma undouble_bq s : forall f, length (bq_body s) <= f -> undouble f (bq_body s) = s.
Proof.
  induction s as [|c r IH]; intros f Hf; cbn [bq_body] in *.
  - destruct f; reflexivity.
  - destruct (c =? 96)%N eqn:E.
    + apply N.eqb_eq in E. subst c. destruct f as [|f]; [cbn [length] in Hf; lia|]. cbn [undouble]. rewrite ?N.eqb_refl.
      rewrite IH by (cbn [length] in Hf; lia). reflexivity.
    + destruct f as [|f]; [cbn [length] in Hf; lia|]. cbn [undouble]. rewrite E.
      rewrite IH by (cbn [length] in Hf; lia). reflexivity.
Qed.

Lemma lex1_backtick r : lex1 (96%N :: r) = lex_quoted (96%N :: r).
Proof. unfold lex1. rewrite ascii_decode by lia. reflexivity. Qed.

Theorem quoted_roundtrip s rest : no_newline s -> (match rest with c :: _ => c <> 96%N | [] => True end) ->
  lex1 (bq_quote s ++ rest) = Tok KQuotedIdentifier s (length (bq_quote s)).
Proof.
  intros Hnl Hrest. unfold bq_quote. cbn [app]. rewrite lex1_backtick.
  unfold lex_quoted. rewrite <- app_assoc. cbn [app].
  rewrite quoted_body_bq; [|exact Hnl|exact Hrest|cbn [length]; lia].
  rewrite undouble_bq by lia. cbn [length]. rewrite app_length. cbn [length]. f_equal. lia.
Qed.

(** ** hexadecimal literals: the value is the decimal spelling of the same number *)
Lemma dec_digits_app f : forall n acc, dec_digits f n acc = dec_digits f n [] ++ acc.
Proof.
  induction f as [|f IH]; intros n acc; cbn [dec_digits]; [reflexivity|].
  destruct (n / 10 =? 0)%N; [reflexivity|]. rewrite IH, (IH _ [(48 + n mod 10)%N]), <- app_assoc. reflexivity.
Qed.

Lemma dec_value_app a b : dec_value (a ++ b) = fold_left (fun acc c => (acc * 10 + (c - 48))%N) b (dec_value a).
Proof. unfold dec_value. apply fold_left_app. Qed.

Lemma dec_digits_value f : forall n, N.to_nat (N.log2 n) < f -> dec_value (dec_digits f n []) = n.
Proof.
  induction f as [|f IH]; intros n Hf; [lia|]. cbn [dec_digits].
  destruct (n / 10 =? 0)%N eqn:E.
  - apply N.eqb_eq in E. unfold dec_value. cbn [fold_left]. apply N.div_small_iff in E; lia.
  - apply N.eqb_neq in E. rewrite dec_digits_app, dec_value_app. cbn [fold_left].
    assert (Hm : (0 < n / 10)%N) by lia.
    rewrite IH.
    + pose proof (N.div_mod n 10 ltac:(lia)). lia.
    + (* log2 (n / 10) < log2 n *)
      assert (Hn : (0 < n)%N) by (destruct n; [cbn in E; congruence|lia]).
      pose proof (N.log2_spec n Hn) as [Hlo Hhi].
      assert (Hlt : (N.log2 (n / 10) < N.log2 n)%N).
      { apply N.log2_lt_pow2; [exact Hm|]. rewrite N.pow_succ_r' in Hhi.
        pose proof (N.mul_div_le n 10 ltac:(lia)). lia. }
      lia.
Qed.

Theorem N_to_dec_value n : dec_value (N_to_dec n) = n.
Proof. unfold N_to_dec. apply dec_digits_value. lia. Qed.

Lemma digit_not_ident_start c : is_digit c = true -> is_ident_start c = false /\ is_space c = false /\ (c < 128)%N.
Proof. unfold is_digit, is_ident_start, is_alpha, is_space, in_range. lia. Qed.

(** "0x" or "0X" followed by hex digits: one number token whose value denotes the same number, or
    one error token over the whole literal when it does not fit in 64 bits *)
Theorem hex_spec x ds rest : (x = 120 \/ x = 88)%N -> ds <> [] -> forallb is_hex_digit ds = true ->
  (match rest with c :: _ => is_hex_digit c = false | [] => True end) ->
  lex1 (48%N :: x :: ds ++ rest) =
    (if (hex_value ds <? two64)%N then Tok KNumber (N_to_dec (hex_value ds)) (2 + length ds) else Tok KError [] (2 + length ds))
  /\ dec_value (N_to_dec (hex_value ds)) = hex_value ds.
Proof.
  intros Hx Hne Hds Hrest. split; [|apply N_to_dec_value].
  unfold lex1. rewrite ascii_decode by lia.
  replace (is_space 48) with false by reflexivity. replace (is_ident_start 48) with false by reflexivity.
  replace (is_digit 48 || (48 =? 46)%N) with true by reflexivity.
  unfold lex_number. replace (48 =? 48)%N with true by reflexivity.
  assert (E1 : (x =? 46)%N = false) by (destruct Hx; subst; reflexivity).
  assert (E2 : ((x =? 101)%N || (x =? 69)%N) = false) by (destruct Hx; subst; reflexivity).
  assert (E3 : ((x =? 120)%N || (x =? 88)%N) = true) by (destruct Hx; subst; reflexivity).
  rewrite E1, E2, E3.
  assert (Htw : take_while is_hex_digit (ds ++ rest) = ds).
  { clear Hne. induction ds as [|d r IH]; cbn [app take_while forallb] in *.
    - destruct rest as [|c r']; [reflexivity|]. cbn [take_while]. rewrite Hrest. reflexivity.
    - apply andb_prop in Hds as [Hd Hr]. rewrite Hd, (IH Hr). reflexivity. }
  rewrite Htw. destruct ds as [|d r]; [congruence|]. reflexivity.
Qed.

(** ** decimal literals: normalisation only removes leading zeros and writes one before `.`/`e`/`E` *)
Lemma drop_zeros s : exists k, s = repeat 48%N k ++ drop_while (fun c => (c =? 48)%N) s /\
  match drop_while (fun c => (c =? 48)%N) s with c :: _ => c <> 48%N | [] => True end.
Proof.
  induction s as [|c r (k & E & Hh)]; cbn [drop_while].
  - exists 0. split; [reflexivity|exact I].
  - destruct (c =? 48)%N eqn:Ec.
    + apply N.eqb_eq in Ec. subst c. exists (S k). split; [cbn [repeat app]; f_equal; exact E|exact Hh].
    + exists 0. split; [reflexivity|]. apply N.eqb_neq in Ec. exact Ec.
Qed.

Theorem normalize_spec s : exists k rest, s = repeat 48%N k ++ rest /\
  (match rest with c :: _ => c <> 48%N | [] => True end) /\
  normalize_number s =
    match rest with
    | [] => [48%N]
    | c :: _ => if (c =? 46)%N || (c =? 101)%N || (c =? 69)%N then 48%N :: rest else rest
    end.
Proof.
  destruct (drop_zeros s) as (k & E & Hh). exists k, (drop_while (fun c => (c =? 48)%N) s).
  split; [exact E|]. split; [exact Hh|]. unfold normalize_number. destruct (drop_while _ s); reflexivity.
Qed.

(** an integer literal keeps its value *)
Lemma dec_value_zeros k rest : dec_value (repeat 48%N k ++ rest) = dec_value rest.
Proof. induction k as [|k IH]; cbn [repeat app]; [reflexivity|]. unfold dec_value in *. cbn [fold_left]. exact IH. Qed.

Theorem normalize_integer_value s : forallb is_digit s = true -> dec_value (normalize_number s) = dec_value s.
Proof.
  intros Hd. destruct (normalize_spec s) as (k & rest & E & Hh & ->). rewrite E, dec_value_zeros.
  destruct rest as [|c r]; [reflexivity|].
  assert (Hc : is_digit c = true).
  { rewrite E, forallb_app in Hd. apply andb_prop in Hd as [_ Hd]. cbn [forallb] in Hd. apply andb_prop in Hd as [Hd _]. exact Hd. }
  assert (E2 : ((c =? 46)%N || (c =? 101)%N || (c =? 69)%N) = false) by (unfold is_digit, in_range in Hc; lia).
  rewrite E2. reflexivity.
Qed.

(** ** operators and punctuation *)
Definition op_table : list (str * kind) :=
  [(L ",", KComma); (L "|", KPipe); (L "(", KLParen); (L ")", KRParen); (L "[", KLBracket); (L "]", KRBracket);
   (L "+", KPlus); (L "-", KMinus); (L "*", KStar); (L "%", KMod); (L ";", KSemi);
   (L "==", KEq); (L "=~", KCaseInsensitiveEq); (L "!=", KNE); (L "!~", KCaseInsensitiveNE); (L "<=", KLE); (L ">=", KGE)].

(** each of these spellings is one token of its kind, whatever follows *)
Theorem operators_spec : forallb (fun sk => forallb (fun nxt =>
    match lex1 (fst sk ++ nxt) with Tok k v n => kind_eqb k (snd sk) && Nat.eqb n (length (fst sk)) && match v with [] => true | _ => false end | Skip _ => false end)
    [[]; [32%N]; [61%N]; [126%N]; [47%N]; [97%N]; [48%N]; [255%N]]) op_table = true.
Proof. vm_compute. reflexivity. Qed.

(** the one-character forms of = < > / when no second character completes a longer operator *)
Theorem short_operators_spec :
  forallb (fun nxt => match lex1 (61%N :: nxt) with Tok KAssign [] 1 => true | _ => false end) [[]; [32%N]; [97%N]; [60%N]] = true
  /\ forallb (fun nxt => match lex1 (60%N :: nxt) with Tok KLT [] 1 => true | _ => false end) [[]; [32%N]; [97%N]; [62%N]] = true
  /\ forallb (fun nxt => match lex1 (62%N :: nxt) with Tok KGT [] 1 => true | _ => false end) [[]; [32%N]; [97%N]; [60%N]] = true
  /\ forallb (fun nxt => match lex1 (47%N :: nxt) with Tok KSlash [] 1 => true | _ => false end) [[]; [32%N]; [97%N]; [42%N]] = true
  /\ forallb (fun nxt => match lex1 (33%N :: nxt) with Tok KError [] 1 => true | _ => false end) [[]; [32%N]; [97%N]; [33%N]] = true.
Proof. vm_compute. repeat split. Qed.

(** ** rescanning: the item at the head of a text is the item of its own bytes alone *)
Lemma firstn_cons_S {A} n (x : A) l : firstn (S n) (x :: l) = x :: firstn n l.
Proof. reflexivity. Qed.

Lemma decode_firstn l n : snd (decode l) <= n -> decode (firstn n l) = decode l.
Proof.
  destruct l as [|b0 r]; [intros _; rewrite firstn_nil; reflexivity|].
  destruct n as [|n]; [pose proof (decode_width (b0 :: r) ltac:(congruence)); lia|].
  rewrite firstn_cons_S. unfold decode.
  destruct (b0 <? 128)%N; [reflexivity|].
  destruct (in_range 194 223 b0).
  { destruct r as [|b1 r1]; [rewrite firstn_nil; reflexivity|].
    destruct n as [|n]; cbn [firstn]; [destruct (is_cont b1); cbn [snd]; [lia|reflexivity]|reflexivity]. }
  destruct (in_range 224 239 b0).
  { destruct r as [|b1 [|b2 r2]]; try (destruct n as [|[|n]]; reflexivity).
    destruct (in_range _ _ b1 && is_cont b2) eqn:E; cbn [snd].
    - intros Hn. destruct n as [|[|n]]; try lia. cbn [firstn]. rewrite E. reflexivity.
    - intros _. destruct n as [|[|n]]; cbn [firstn]; try reflexivity. rewrite E. reflexivity. }
  destruct (in_range 240 244 b0).
  { destruct r as [|b1 [|b2 [|b3 r3]]]; try (destruct n as [|[|[|n]]]; reflexivity).
    destruct (in_range _ _ b1 && is_cont b2 && is_cont b3) eqn:E; cbn [snd].
    - intros Hn. destruct n as [|[|[|n]]]; try lia. cbn [firstn]. rewrite E. reflexivity.
    - intros _. destruct n as [|[|[|n]]]; cbn [firstn]; try reflexivity. rewrite E. reflexivity. }
  reflexivity.
Qed.

Lemma take_while_firstn p l : forall n, length (take_while p l) <= n -> take_while p (firstn n l) = take_while p l.
Proof.
  induction l as [|c r IH]; intros n Hn; [rewrite firstn_nil; reflexivity|].
  cbn [take_while] in *. destruct (p c) eqn:E.
  - destruct n as [|n]; [cbn [length] in Hn; lia|]. rewrite firstn_cons_S. cbn [take_while]. rewrite E, IH; [reflexivity|cbn [length] in Hn; lia].
  - destruct n as [|n]; [reflexivity|]. rewrite firstn_cons_S. cbn [take_while]. rewrite E. reflexivity.
Qed.

Lemma exponent_len_firstn l n : exponent_len l <= n -> exponent_len (firstn n l) = exponent_len l.
Proof.
  unfold exponent_len. destruct l as [|e r]; [intros _; rewrite firstn_nil; reflexivity|].
  destruct n as [|n].
  { destruct ((e =? 101)%N || (e =? 69)%N); [|reflexivity].
    destruct r as [|sg r']; [reflexivity|].
    destruct ((sg =? 43)%N || (sg =? 45)%N).
    - destruct r' as [|d r'']; [reflexivity|]. destruct (is_digit d); [lia|reflexivity].
    - destruct (is_digit sg); [lia|reflexivity]. }
  rewrite firstn_cons_S. destruct ((e =? 101)%N || (e =? 69)%N); [|reflexivity].
  destruct r as [|sg r']; [rewrite firstn_nil; reflexivity|].
  destruct ((sg =? 43)%N || (sg =? 45)%N) eqn:Esg.
  - destruct r' as [|d r''].
    + destruct n as [|n]; cbn [firstn]; [reflexivity|rewrite Esg, firstn_nil; reflexivity].
    + destruct (is_digit d) eqn:Ed.
      * intros Hn. cbn [take_while] in Hn. rewrite Ed in Hn. cbn [length] in Hn.
        destruct n as [|[|n]]; try lia. cbn [firstn]. rewrite Esg, Ed.
        pose proof (take_while_firstn is_digit (d :: r'') (S n)) as H. cbn [take_while] in H. rewrite Ed in H. cbn [length firstn] in H.
        rewrite H by lia. cbn [take_while]. rewrite Ed. reflexivity.
      * intros _. destruct n as [|[|n]]; cbn [firstn]; try reflexivity; rewrite Esg; try reflexivity. rewrite Ed. reflexivity.
  - destruct (is_digit sg) eqn:Ed.
    + intros Hn. cbn [take_while] in Hn. rewrite Ed in Hn. cbn [length] in Hn.
      destruct n as [|n]; try lia. cbn [firstn]. rewrite Esg, Ed.
      pose proof (take_while_firstn is_digit (sg :: r') (S n)) as H. cbn [take_while] in H. rewrite Ed in H. cbn [length firstn] in H.
      rewrite H by lia. cbn [take_while]. rewrite Ed. reflexivity.
    + intros _. destruct n as [|n]; cbn [firstn]; [reflexivity|]. rewrite Esg, Ed. reflexivity.
Qed.

Lemma digits_len_firstn : forall l d n, digits_len d l <= n -> digits_len d (firstn n l) = digits_len d l.
Proof.
  induction l as [|c r IH]; intros d n Hn; [rewrite firstn_nil; reflexivity|].
  cbn [digits_len] in *. destruct ((c =? 46)%N && negb d) eqn:E1.
  - destruct n as [|n]; [lia|]. rewrite firstn_cons_S. cbn [digits_len]. rewrite E1, IH by lia. reflexivity.
  - destruct (is_digit c) eqn:E2.
    + destruct n as [|n]; [lia|]. rewrite firstn_cons_S. cbn [digits_len]. rewrite E1, E2, IH by lia. reflexivity.
    + destruct n as [|n].
      * cbn [firstn digits_len]. unfold exponent_len in Hn |- *. destruct ((c =? 101)%N || (c =? 69)%N); [|reflexivity].
        destruct r as [|sg r']; [reflexivity|]. destruct ((sg =? 43)%N || (sg =? 45)%N).
        -- destruct r' as [|d0 r'']; [reflexivity|]. destruct (is_digit d0); [lia|reflexivity].
        -- destruct (is_digit sg); [lia|reflexivity].
      * rewrite firstn_cons_S. cbn [digits_len]. rewrite E1, E2. rewrite <- firstn_cons_S. apply exponent_len_firstn. exact Hn.
Qed.

Lemma skipn_firstn_comm' {A} (m n : nat) (l : list A) : skipn m (firstn n l) = firstn (n - m) (skipn m l).
Proof. apply skipn_firstn_comm. Qed.

Lemma firstn_firstn_le {A} (m n : nat) (l : list A) : m <= n -> firstn m (firstn n l) = firstn m l.
Proof. intros H. rewrite firstn_firstn. f_equal. lia. Qed.

(** strings: scanning the literal's own bytes gives the same result (value or error, and length) *)
Lemma string_body_firstn q : forall f esc l n, length l < f -> snd (string_body f q esc l) <= n ->
  string_body f q esc (firstn n l) = string_body f q esc l.
Proof.
  induction f as [|f IH]; intros esc l n Hf Hn; [lia|].
  destruct l as [|c0 r0]; [rewrite firstn_nil; reflexivity|].
  destruct n as [|n].
  { (* nothing was consumed: only a newline or the end can be at the head *)
    cbn [firstn]. revert Hn. cbn [string_body].
    pose proof (decode_width (c0 :: r0) ltac:(congruence)) as Hw.
    destruct (decode (c0 :: r0)) as [c w]. cbn [snd] in Hw.
    destruct (c =? q)%N; [cbn [snd]; lia|].
    destruct (c =? 10)%N; [reflexivity|].
    destruct (c =? 92)%N.
    - destruct (skipn w (c0 :: r0)) as [|c1 r1]; [cbn [snd]; lia|].
      destruct (decode (c1 :: r1)) as [c2 w2]. destruct (c2 =? 10)%N; [cbn [snd]; lia|].
      destruct (string_body f q true _) as [o m]. cbn [snd]. lia.
    - destruct (string_body f q esc _) as [o m]. cbn [snd]. lia. }
  set (l := c0 :: r0) in *.
  assert (Hne : l <> []) by (subst l; congruence).
  pose proof (decode_width l Hne) as Hw.
  assert (Hstep := string_body_step f q esc l Hne).
  assert (Hne' : firstn (S n) l <> []) by (subst l; cbn [firstn]; congruence).
  assert (Hstep' := string_body_step f q esc (firstn (S n) l) Hne').
  rewrite Hstep in Hn |- *. rewrite Hstep'. clear Hstep Hstep'.
  destruct (decode l) as [c w] eqn:Ed. cbn [snd] in Hw.
  destruct (c =? q)%N eqn:Eq.
  { cbn [snd] in Hn. rewrite (decode_firstn l (S n)) by (rewrite Ed; exact Hn). rewrite Ed, Eq. reflexivity. }
  destruct (c =? 10)%N eqn:Enl.
  { (* the newline is the first rune: decoding the truncation may differ only if it is cut, but a newline is one byte *)
    assert (Hc : c = 10%N) by (apply N.eqb_eq; exact Enl). subst c.
    assert (Hw1 : w = 1).
    { subst l. destruct (decode_small c0 r0 _ _ Ed ltac:(lia)) as [_ E]. exact E. }
    rewrite (decode_firstn l (S n)) by (rewrite Ed; cbn [snd]; lia). rewrite Ed, Eq. reflexivity. }
  destruct (c =? 92)%N eqn:Ebs.
  - assert (Hw1 : w = 1).
    { assert (Hc : c = 92%N) by (apply N.eqb_eq; exact Ebs). subst c l. destruct (decode_small c0 r0 _ _ Ed ltac:(lia)) as [_ E]. exact E. }
    subst w. rewrite (decode_firstn l (S n)) by (rewrite Ed; cbn [snd]; lia). rewrite Ed, Eq, Enl, Ebs.
    rewrite skipn_firstn_comm'. replace (S n - 1) with n by lia.
    destruct (skipn 1 l) as [|c1 r1] eqn:Es1.
    { rewrite firstn_nil. reflexivity. }
    cbv zeta iota beta in Hn |- *.
    assert (Hne1 : c1 :: r1 <> []) by congruence.
    pose proof (decode_width (c1 :: r1) Hne1) as Hw2.
    assert (Hlen1 : length (c1 :: r1) = length l - 1) by (rewrite <- Es1, skipn_length; reflexivity).
    destruct (decode (c1 :: r1)) as [c2 w2] eqn:Ed2. cbn [snd] in Hw2.
    destruct (c2 =? 10)%N eqn:Enl2.
    { (* backslash-newline: the error covers the backslash only *)
      destruct n as [|n]; [cbn [firstn]; reflexivity|].
      assert (Hw21 : w2 = 1).
      { assert (Hc : c2 = 10%N) by (apply N.eqb_eq; exact Enl2). subst c2. destruct (decode_small c1 r1 _ _ Ed2 ltac:(lia)) as [_ E]. exact E. }
      rewrite firstn_cons_S. cbv iota beta. rewrite <- firstn_cons_S.
      rewrite (decode_firstn (c1 :: r1) (S n)) by (rewrite Ed2; cbn [snd]; lia). rewrite Ed2, Enl2. reflexivity. }
    destruct (string_body f q true (skipn w2 (c1 :: r1))) as [o m] eqn:Er. cbn [snd] in Hn.
    destruct n as [|n]; [lia|].
    rewrite firstn_cons_S. cbv iota beta. rewrite <- firstn_cons_S.
    rewrite (decode_firstn (c1 :: r1) (S n)) by (rewrite Ed2; cbn [snd]; lia). rewrite Ed2, Enl2.
    rewrite skipn_firstn_comm'.
    rewrite (IH true (skipn w2 (c1 :: r1)) (S n - w2)); [|rewrite skipn_length; lia|rewrite Er; cbn [snd]; lia].
    rewrite Er. rewrite firstn_firstn_le by lia. reflexivity.
  - destruct (string_body f q esc (skipn w l)) as [o m] eqn:Er. cbn [snd] in Hn.
    rewrite (decode_firstn l (S n)) by (rewrite Ed; cbn [snd]; lia). rewrite Ed, Eq, Enl, Ebs.
    rewrite skipn_firstn_comm'.
    rewrite (IH esc (skipn w l) (S n - w)); [|rewrite skipn_length; lia|rewrite Er; cbn [snd]; lia].
    rewrite Er. rewrite firstn_firstn_le by lia. reflexivity.
Qed.

Lemma quoted_body_firstn : forall f l n, length l < f -> snd (quoted_body f l) <= n ->
  quoted_body f (firstn n l) = quoted_body f l.
Proof.
  induction f as [|f IH]; intros l n Hf Hn; [lia|].
  destruct l as [|c r]; [rewrite firstn_nil; reflexivity|].
  cbn [quoted_body] in Hn |- *.
  destruct (c =? 96)%N eqn:E96.
  - destruct r as [|c2 r2].
    + cbn [snd] in Hn. destruct n as [|n]; [lia|]. rewrite firstn_cons_S, firstn_nil. cbn [quoted_body]. rewrite E96. reflexivity.
    + destruct (c2 =? 96)%N eqn:E2.
      * destruct (quoted_body f r2) as [o m] eqn:Er. cbn [snd] in Hn.
        destruct n as [|[|n]]; try lia. rewrite !firstn_cons_S. cbn [quoted_body]. rewrite E96, E2.
        rewrite (IH r2 n); [rewrite Er; reflexivity|cbn [length] in Hf; lia|rewrite Er; cbn [snd]; lia].
      * cbn [snd] in Hn. destruct n as [|[|n]]; try lia.
        -- cbn [firstn quoted_body]. rewrite E96. reflexivity.
        -- rewrite !firstn_cons_S. cbn [quoted_body]. rewrite E96, E2. reflexivity.
  - destruct (c =? 10)%N eqn:Enl.
    + destruct n as [|n]; [reflexivity|]. rewrite firstn_cons_S. cbn [quoted_body]. rewrite E96, Enl. reflexivity.
    + destruct (quoted_body f r) as [o m] eqn:Er. cbn [snd] in Hn.
      destruct n as [|n]; [lia|]. rewrite firstn_cons_S. cbn [quoted_body]. rewrite E96, Enl.
      rewrite (IH r n); [rewrite Er; reflexivity|cbn [length] in Hf; lia|rewrite Er; cbn [snd]; lia].
Qed.

Lemma firstn_length_le' {A} n (l : list A) : n <= length l -> length (firstn n l) = n.
Proof. apply firstn_length_le. Qed.

(** the sub-scanners, on their own item's bytes *)
Lemma lex_ident_rescan b r k v n : lex_ident (b :: r) = Tok k v (S n) -> lex_ident (b :: firstn n r) = Tok k v (S n).
Proof.
  unfold lex_ident. destruct (keyword_kind (b :: take_while is_ident_char r)) as [kk|] eqn:Ek; intros [= <- <- Hn]; cbn [length] in Hn;
    rewrite take_while_firstn by lia; rewrite Ek; cbn [length]; rewrite Hn; reflexivity.
Qed.

Lemma normalize_firstn_id m (l : str) : normalize_number (firstn m (firstn m l)) = normalize_number (firstn m l).
Proof. rewrite firstn_firstn, Nat.min_id. reflexivity. Qed.

Ltac fin_firstn := cbn [firstn Nat.add]; rewrite ?firstn_firstn, ?Nat.min_id; reflexivity.

Lemma lex_number_rescan b r k v n : lex_number (b :: r) = Tok k v (S n) -> lex_number (b :: firstn n r) = Tok k v (S n).
Proof.
  unfold lex_number.
  change (b :: firstn n r) with (firstn (S n) (b :: r)) at 1.
  destruct (b =? 48)%N eqn:E0.
  - destruct r as [|c1 r1].
    + intros [= <- <- <-]. reflexivity.
    + destruct (c1 =? 46)%N eqn:E1.
      { intros [= <- <- Hn]. destruct n as [|n]; [lia|]. rewrite !firstn_cons_S. rewrite E1.
        assert (Hdn : digits_len true r1 = n) by lia.
        rewrite (digits_len_firstn r1 true n) by lia. rewrite Hdn.
        fin_firstn. }
      destruct ((c1 =? 101)%N || (c1 =? 69)%N) eqn:E2.
      { remember (exponent_len (c1 :: r1)) as el eqn:Eel. intros [= <- <- Hn]. assert (Hdn : el = n) by lia. subst el. destruct n as [|n].
        - rewrite Hdn. apply N.eqb_eq in E0. subst b. reflexivity.
        - rewrite !firstn_cons_S. rewrite E1, E2. rewrite <- (firstn_cons_S n c1 r1).
          rewrite (exponent_len_firstn (c1 :: r1) (S n)) by lia. rewrite Hdn.
          fin_firstn. }
      destruct ((c1 =? 120)%N || (c1 =? 88)%N) eqn:E3.
      { destruct (take_while is_hex_digit r1) as [|h hs] eqn:Eh.
        - intros [= <- <- Hn]. assert (n = 1) by lia. subst n. cbn [firstn]. rewrite E1, E2, E3.
          destruct r1 as [|x y]; [reflexivity|]. cbn [firstn take_while]. reflexivity.
        - destruct (hex_value (h :: hs) <? two64)%N eqn:Ev; intros [= <- <- Hn];
            (destruct n as [|n]; [cbn [length] in Hn; lia|]); rewrite !firstn_cons_S, E1, E2, E3;
            (rewrite take_while_firstn by (rewrite Eh; cbn [length] in *; lia)); rewrite Eh, Ev; cbn [length Nat.add]; rewrite ?Hn; reflexivity. }
      destruct (is_digit c1) eqn:E4.
      { intros [= <- <- Hn]. destruct n as [|n]; [lia|]. rewrite !firstn_cons_S. rewrite E1, E2, E3, E4.
        assert (Hdn : digits_len false r1 = n) by lia.
        rewrite (digits_len_firstn r1 false n) by lia. rewrite Hdn.
        fin_firstn. }
      remember (digits_len false (c1 :: r1)) as dl eqn:Edl. intros [= <- <- Hn]. assert (Hdn : dl = n) by lia. subst dl. destruct n as [|n].
      { rewrite Hdn. apply N.eqb_eq in E0. subst b. reflexivity. }
      rewrite !firstn_cons_S. rewrite E1, E2, E3, E4. rewrite <- (firstn_cons_S n c1 r1).
      rewrite (digits_len_firstn (c1 :: r1) false (S n)) by lia. rewrite Hdn.
      fin_firstn.
  - destruct (b =? 46)%N eqn:Edot.
    + destruct r as [|d r1]; [intros [= <- <- <-]; reflexivity|].
      destruct (is_digit d) eqn:Ed.
      * intros [= <- <- Hn]. destruct n as [|n]; [lia|]. rewrite !firstn_cons_S. rewrite Ed.
        assert (Hdn : digits_len true r1 = n) by lia.
        rewrite (digits_len_firstn r1 true n) by lia. rewrite Hdn.
        fin_firstn.
      * intros [= <- <- <-]. reflexivity.
    + intros [= <- <- Hn]. assert (Hdn : digits_len false r = n) by lia.
      rewrite firstn_cons_S. rewrite (digits_len_firstn r false n) by lia. rewrite Hdn.
      fin_firstn.
Qed.

Lemma lex_string_rescan q r k v n : lex_string (q :: r) = Tok k v (S n) -> lex_string (q :: firstn n r) = Tok k v (S n).
Proof.
  unfold lex_string.
  destruct (string_body (S (length r)) q false r) as [o m] eqn:Eb.
  assert (Hm : m <= length r) by (pose proof (string_body_le (S (length r)) q false r) as H; rewrite Eb in H; exact H).
  intros Hres. assert (Hn : m = n) by (destruct o; injection Hres as _ _ Hn; lia). subst m.
  rewrite (string_body_fuel q (S (length (firstn n r))) (S (length r)) false (firstn n r)); [|lia|rewrite firstn_length; lia].
  rewrite (string_body_firstn q (S (length r)) false r n); [|lia|rewrite Eb; cbn [snd]; lia].
  rewrite Eb. exact Hres.
Qed.

Lemma lex_quoted_rescan q r k v n : lex_quoted (q :: r) = Tok k v (S n) -> lex_quoted (q :: firstn n r) = Tok k v (S n).
Proof.
  unfold lex_quoted.
  destruct (quoted_body (length (q :: r)) r) as [o m] eqn:Eb.
  assert (Hm : m <= length r) by (pose proof (quoted_body_le (length (q :: r)) r) as H; rewrite Eb in H; exact H).
  intros Hres. assert (Hn : m = n) by (destruct o; injection Hres as _ _ Hn; lia). subst m.
  rewrite (quoted_body_fuel (length (q :: firstn n r)) (length (q :: r)) (firstn n r)); [|cbn [length]; lia|cbn [length]; rewrite firstn_length; lia].
  rewrite (quoted_body_firstn (length (q :: r)) r n); [|cbn [length]; lia|rewrite Eb; cbn [snd]; lia].
  rewrite Eb. exact Hres.
Qed.

(** a rune outside ASCII that is not white space is one error token *)
Lemma lex1_nonascii l c w : l <> [] -> decode l = (c, w) -> (128 <= c)%N -> is_space c = false -> lex1 l = Tok KError [] w.
Proof.
  intros Hne Hd Hc Hs. destruct l as [|b r]; [congruence|]. unfold lex1. rewrite Hd, Hs.
  assert (E1 : is_ident_start c = false) by (unfold is_ident_start, is_alpha, in_range; lia).
  assert (E2 : (is_digit c || (c =? 46)%N) = false) by (unfold is_digit, in_range; lia).
  rewrite E1, E2.
  repeat match goal with |- context [(c =? ?k)%N] => replace (c =? k)%N with false by (symmetry; apply N.eqb_neq; lia) end.
  reflexivity.
Qed.

(** the item at the head of a text, found again in the item's own bytes *)
Theorem lex1_rescan l k v n : l <> [] -> lex1 l = Tok k v n -> lex1 (firstn n l) = Tok k v n.
Proof.
  intros Hne Hl. pose proof (lex1_progress l Hne) as Hp. rewrite Hl in Hp. cbn [item_len] in Hp.
  destruct l as [|b r]; [congruence|]. destruct n as [|n]; [lia|]. rewrite firstn_cons_S.
  destruct (decode (b :: r)) as [c w] eqn:Ed.
  destruct (N.ltb_spec c 128) as [Hc|Hc].
  - (* ASCII *)
    destruct (decode_small b r c w Ed Hc) as [-> ->].
    revert Hl. unfold lex1. rewrite !ascii_decode by exact Hc.
    destruct (is_space c); [discriminate|].
    destruct (is_ident_start c); [apply lex_ident_rescan|].
    destruct (is_digit c || (c =? 46)%N); [apply lex_number_rescan|].
    destruct (c =? 44)%N; [intros [= <- <- <-]; reflexivity|].
    destruct ((c =? 34)%N || (c =? 39)%N); [apply lex_string_rescan|].
    destruct (c =? 96)%N; [apply lex_quoted_rescan|].
    destruct (c =? 124)%N; [intros [= <- <- <-]; reflexivity|].
    destruct (c =? 40)%N; [intros [= <- <- <-]; reflexivity|].
    destruct (c =? 41)%N; [intros [= <- <- <-]; reflexivity|].
    destruct (c =? 91)%N; [intros [= <- <- <-]; reflexivity|].
    destruct (c =? 93)%N; [intros [= <- <- <-]; reflexivity|].
    destruct (c =? 61)%N.
    { destruct r as [|c2 r']; [intros [= <- <- <-]; reflexivity|].
      destruct (c2 =? 61)%N eqn:E1; [intros [= <- <- <-]; cbn [firstn]; rewrite E1; reflexivity|].
      destruct (c2 =? 126)%N eqn:E2; intros [= <- <- <-]; cbn [firstn]; [rewrite E1, E2|]; reflexivity. }
    destruct (c =? 33)%N.
    { destruct r as [|c2 r']; [intros [= <- <- <-]; reflexivity|].
      destruct (c2 =? 61)%N eqn:E1; [intros [= <- <- <-]; cbn [firstn]; rewrite E1; reflexivity|].
      destruct (c2 =? 126)%N eqn:E2; intros [= <- <- <-]; cbn [firstn]; [rewrite E1, E2|]; reflexivity. }
    destruct (c =? 43)%N; [intros [= <- <- <-]; reflexivity|].
    destruct (c =? 45)%N; [intros [= <- <- <-]; reflexivity|].
    destruct (c =? 42)%N; [intros [= <- <- <-]; reflexivity|].
    destruct (c =? 47)%N.
    { destruct r as [|c2 r']; [intros [= <- <- <-]; reflexivity|].
      destruct (c2 =? 47)%N; [discriminate|]. intros [= <- <- <-]. reflexivity. }
    destruct (c =? 37)%N; [intros [= <- <- <-]; reflexivity|].
    destruct (c =? 60)%N.
    { destruct r as [|c2 r']; [intros [= <- <- <-]; reflexivity|].
      destruct (c2 =? 61)%N eqn:E1; intros [= <- <- <-]; cbn [firstn]; [rewrite E1|]; reflexivity. }
    destruct (c =? 62)%N.
    { destruct r as [|c2 r']; [intros [= <- <- <-]; reflexivity|].
      destruct (c2 =? 61)%N eqn:E1; intros [= <- <- <-]; cbn [firstn]; [rewrite E1|]; reflexivity. }
    destruct (c =? 59)%N; intros [= <- <- <-]; reflexivity.
  - (* a rune outside ASCII *)
    destruct (is_space c) eqn:Es.
    { unfold lex1 in Hl. rewrite Ed, Es in Hl. discriminate. }
    rewrite (lex1_nonascii _ c w Hne Ed Hc Es) in Hl. injection Hl as <- <- Hw. subst w.
    rewrite <- firstn_cons_S. apply (lex1_nonascii _ c (S n)).
    + cbn [firstn]. congruence.
    + rewrite decode_firstn; [exact Ed|rewrite Ed; cbn [snd]; lia].
    + exact Hc.
    + exact Es.
Qed.

(** scanning a token's own text alone gives the same token (at offset 0) *)
Theorem token_rescan s t : In t (scan s) ->
  scan (slice s (tstart t) (tend t)) = [mkTok (tkind t) 0 (tend t - tstart t) (tvalue t)].
Proof.
  intros Hin. destruct (scan_items s t Hin) as (Hoff & Hlex & Hlt).
  remember (skipn (tstart t) s) as l eqn:El. remember (tend t - tstart t) as n eqn:En.
  assert (Hne : l <> []).
  { intros E. rewrite E in Hlex. discriminate Hlex. }
  pose proof (lex1_progress l Hne) as Hp. rewrite Hlex in Hp. cbn [item_len] in Hp.
  pose proof (lex1_rescan l _ _ _ Hne Hlex) as Hre.
  unfold slice. rewrite <- El, <- En.
  assert (Hlen : length (firstn n l) = n) by (apply firstn_length_le; lia).
  unfold scan. rewrite Hlen. destruct n as [|n']; [lia|]. cbn [scan_from].
  destruct (firstn (S n') l) as [|x y] eqn:Ef; [cbn [length] in Hlen; lia|].
  rewrite Hre. replace (skipn (S n') (x :: y)) with (@nil N) by (symmetry; apply skipn_all2; lia).
  rewrite ?scan_from_nil. rewrite Nat.add_0_r. reflexivity.
Qed.
