(** * Facts about the expression writer and Compile. *)
From PQL Require Import Model.Compile Proofs.TableFacts.
From Coq Require Import Lia String.
Local Open Scope list_scope.
Local Notation length := List.length (only parsing).

(** ** source parentheses only group *)
Lemma wx_paren c w l x r : wx c w (EParen l x r) = wx c w x.
Proof. reflexivity. Qed.

Theorem wx_strip_parens c w e : wx c w (strip_parens e) = wx c w e.
Proof. induction e; try reflexivity. cbn [strip_parens]. rewrite wx_paren. assumption. Qed.

(** the three wrapping modes agree on whether the expression compiles *)
Lemma bind_ok_iff {A B} (r : res A) (f : A -> res B) :
  (forall a, exists b, f a = Ok b) -> (exists b, bind r f = Ok b) <-> (exists a, r = Ok a).
Proof.
  intros Hf. destruct r as [a|p]; cbn [bind].
  - split; [eauto|]. intros _. apply Hf.
  - split; intros [x Hx]; discriminate.
Qed.

(** ** successful output is never empty: it ends with the statement terminator *)
Lemma render_app a b : render (a ++ b) = render a ++ render b.
Proof. unfold render. apply flat_map_app. Qed.

Lemma bind_inv {A B} (r : res A) (f : A -> res B) b : bind r f = Ok b -> exists a, r = Ok a /\ f a = Ok b.
Proof. destruct r as [a|p]; cbn [bind]; [eauto|discriminate]. Qed.

Theorem compile_stmts_ends_with_semicolon source params ss ps :
  compile_stmts source params ss = Ok ps -> exists ps', ps = ps' ++ lit ";".
Proof.
  unfold compile_stmts. intros H.
  apply bind_inv in H as (st & _ & H).
  destruct (snd st) as [t|]; [|discriminate].
  apply bind_inv in H as (subs & _ & H).
  destruct (rev subs) as [|q rctes]; [discriminate|].
  apply bind_inv in H as (w & _ & H).
  apply bind_inv in H as (body & _ & H).
  injection H as <-. eexists. rewrite !app_assoc. reflexivity.
Qed.

Theorem compile_ok_nonempty params s ps : compile params s = COk ps -> render ps <> [].
Proof.
  unfold compile. destruct (parse s) as [ss|e| |]; try discriminate.
  destruct (compile_stmts s params ss) as [ps0|p] eqn:E; [|discriminate].
  intros [= <-]. apply compile_stmts_ends_with_semicolon in E as (ps' & ->).
  rewrite render_app. intros H. apply app_eq_nil in H as [_ H]. vm_compute in H. discriminate.
Qed.

(** ** let statements after the query have no effect; statements before it bind in order *)
Lemma stmt_loop_after_query sc t ss :
  (forall s, In s ss -> match s with SLet _ _ _ _ => True | STab _ => False end) ->
  stmt_loop sc (Some t) ss = Ok (sc, Some t).
Proof.
  induction ss as [|s r IH]; intros H; cbn [stmt_loop]; [reflexivity|].
  pose proof (H s (or_introl eq_refl)) as Hs. destruct s as [kw name a x|t']; [|destruct Hs].
  apply IH. intros s' Hs'. apply H. right. exact Hs'.
Qed.

Lemma stmt_loop_app sc q pre post :
  stmt_loop sc q (pre ++ post) =
  match stmt_loop sc q pre with Ok (sc', q') => stmt_loop sc' q' post | Err p => Err p end.
Proof.
  revert sc q; induction pre as [|s r IH]; intros sc q; cbn [app stmt_loop]; [reflexivity|].
  destruct s as [kw name a x|t].
  - destruct q as [t0|]; [apply IH|].
    destruct (woperand _ x) as [v|p]; cbn [bind]; [apply IH|reflexivity].
  - destruct q as [t0|]; [reflexivity|apply IH].
Qed.

Definition is_let (s : stmt) : bool := match s with SLet _ _ _ _ => true | STab _ => false end.

Lemma stmt_loop_lets pre : forall sc sc' q', forallb is_let pre = true ->
  stmt_loop sc None pre = Ok (sc', q') -> q' = None.
Proof.
  induction pre as [|s r IH]; intros sc sc' q' Hl H; cbn [stmt_loop] in H.
  - injection H as _ <-. reflexivity.
  - cbn [forallb] in Hl. apply andb_prop in Hl as [Hs Hr].
    destruct s as [kw name a x|t]; [|discriminate].
    apply bind_inv in H as (v & _ & H). eapply IH; eassumption.
Qed.

Theorem compile_stmts_lets_after_query source params pre t post :
  forallb is_let pre = true -> forallb is_let post = true ->
  compile_stmts source params (pre ++ STab t :: post) = compile_stmts source params (pre ++ [STab t]).
Proof.
  intros Hpre Hpost. unfold compile_stmts.
  rewrite !stmt_loop_app.
  destruct (stmt_loop _ None pre) as [[sc' q']|p] eqn:E; [|reflexivity].
  apply stmt_loop_lets in E; [subst q'|exact Hpre].
  cbn [stmt_loop]. rewrite stmt_loop_after_query; [reflexivity|].
  intros s Hs. rewrite forallb_forall in Hpost. specialize (Hpost s Hs). destruct s; [exact I|discriminate].
Qed.

(** a later let of the same name shadows earlier ones and parameters *)
Theorem scope_shadowing sc n v v' : scope_get ((n, v') :: (n, v) :: sc) n = Some v'.
Proof.
  cbn [scope_get]. assert (str_eqb n n = true) as ->; [|reflexivity].
  induction n as [|c r IH]; cbn [str_eqb]; [reflexivity|]. rewrite N.eqb_refl. exact IH.
Qed.
