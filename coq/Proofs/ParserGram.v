(** * ParserGram (C07, converse): every tree the parser returns is a tree of the grammar.
    With soundness (the tokens stand for the tree) and completeness (a grammar tree for the tokens is
    what the parser returns) this characterises Parse exactly: it accepts the token sequences of the
    programs of the grammar, and returns the one program each stands for. *)
From PQL Require Import Spec.Grammar Proofs.ParserSound Proofs.ParserSoundStmt Proofs.ParserReject Proofs.ParserComplete.
From Coq Require Import Lia ZArith.
Local Open Scope list_scope.
Local Open Scope nat_scope.
Local Notation length := List.length (only parsing).

Lemma inner_primary e : is_inner e = true -> is_primary e = true.
Proof. destruct e; cbn [is_inner is_primary]; congruence. Qed.
Lemma primary_operand e : is_primary e = true -> is_operand e = true.
Proof. destruct e; cbn [is_primary is_operand is_inner]; congruence. Qed.
Lemma operand_levels e : is_operand e = true -> hi e = above_all /\ lo e = above_all.
Proof. destruct e; cbn [is_operand is_primary is_inner hi lo]; try discriminate; split; reflexivity. Qed.

(** what the Pratt loops guarantee about the token they stop at, and need about the one they take *)
Definition takeok (x : expr) (minp : Z) (ts : list token) : Prop :=
  match ts with t :: _ => (minp <= op_prec (tkind t))%Z -> (op_prec (tkind t) <= hi x)%Z | [] => True end.
Definition stopT (minp : Z) (rest : list token) : Prop :=
  match rest with t :: _ => (op_prec (tkind t) < minp)%Z | [] => True end.
Definition stopH (prec1 : Z) (rest : list token) : Prop :=
  match rest with t :: _ => (op_prec (tkind t) <= prec1)%Z | [] => True end.

Lemma takeok_top x minp ts : hi x = above_all -> takeok x minp ts.
Proof. intros H. destruct ts as [|t r]; [exact I|]. cbn [takeok]. intros _. rewrite H. pose proof (op_prec_lt_above (tkind t)). lia. Qed.

Section Gram.
Variable srclen : nat.

Notation pexpr := (p_expr srclen).
Notation punary := (p_unary srclen).
Notation pprimary := (p_primary srclen).
Notation pinner := (p_inner srclen).
Notation plist := (p_expr_list srclen).
Notation ptail := (p_expr_list_tail srclen).
Notation ptrail := (p_trail srclen).
Notation phigher := (p_higher srclen).

Definition G_class (p : nat -> list token -> option expr * list token * errs) (cls : expr -> bool) (f : nat) : Prop :=
  forall ts x rest, p f ts = (Some x, rest, []) -> gexpr x = true /\ cls x = true.
Definition G_list (f : nat) : Prop := forall ts xs rest, plist f ts = (Some xs, rest, []) -> forallb gexpr xs = true.
Definition G_tail (f : nat) : Prop := forall ts xs rest, ptail f ts = (Some xs, rest, []) -> forallb gexpr xs = true.
Definition G_trail (f : nat) : Prop := forall xo minp ts e rest, ptrail f xo minp ts = (Some e, rest, []) ->
  forall x, xo = Some x -> gexpr x = true -> takeok x minp ts -> (0 <= minp)%Z ->
  gexpr e = true /\ (Z.min (lo x) minp <= lo e)%Z /\ stopT minp rest.
Definition G_higher (f : nat) : Prop := forall yo prec1 ts e rest, phigher f yo prec1 ts = (Some e, rest, []) ->
  forall y, yo = Some y -> gexpr y = true -> takeok y (prec1 + 1) ts -> (0 <= prec1)%Z ->
  gexpr e = true /\ (Z.min (lo y) (prec1 + 1) <= lo e)%Z /\ stopH prec1 rest.

Definition any (e : expr) : bool := true.

Definition Gram (f : nat) : Prop :=
  G_class pexpr any f /\ G_class punary is_operand f /\ G_class pprimary is_primary f /\ G_class pinner is_inner f
  /\ G_list f /\ G_tail f /\ G_trail f /\ G_higher f.

Lemma gram_0 : Gram 0.
Proof.
  unfold Gram, G_class, G_list, G_tail, G_trail, G_higher. cbn [p_expr p_unary p_primary p_inner p_expr_list p_expr_list_tail p_trail p_higher].
  repeat split; intros; discriminate.
Qed.

Lemma g_unary f : G_class pprimary is_primary f -> G_class punary is_operand (S f).
Proof.
  intros Hp ts x rest. rewrite p_unary_S. destruct ts as [|t r]; [discriminate|].
  destruct (is_kind KPlus t || is_kind KMinus t).
  - destruct (pprimary f r) as [[x0 r1] e] eqn:Ep. intros [= Hx <- He]. apply opaque_nil in He. subst e.
    apply option_map_some in Hx as (x1 & Hx1 & ->). apply when_ok_some in Hx1 as (_ & ->).
    destruct (Hp _ _ _ Ep) as [Hg Hc]. cbn [gexpr is_operand]. rewrite Hg, Hc. split; reflexivity.
  - intros H. destruct (Hp _ _ _ H) as [Hg Hc]. split; [exact Hg|apply primary_operand; exact Hc].
Qed.

Lemma g_primary f : G_class pinner is_inner f -> G_class pexpr any f -> G_class pprimary is_primary (S f).
Proof.
  intros Hi He ts x rest. rewrite p_primary_S.
  destruct (pinner f ts) as [[x0 r1] e] eqn:Ei.
  destruct (negb (no_err e)) eqn:Ene.
  { intros [= -> <- ->]. discriminate. }
  apply Bool.negb_false_iff in Ene. apply no_err_true in Ene. subst e.
  destruct r1 as [|t r2].
  { intros [= -> <-]. destruct (Hi _ _ _ Ei) as [Hg Hc]. split; [exact Hg|apply inner_primary; exact Hc]. }
  destruct (is_kind KLBracket t).
  - destruct (split KRBracket r2) as [sub rest'].
    destruct (pexpr f sub) as [[i subrest] ei] eqn:Ee.
    destruct rest' as [|c rest'']; [discriminate|].
    destruct (is_kind KRBracket c); [|discriminate].
    intros [= Hx <- Her].
    apply app_nil_inv in Her as [He1 He2]. apply opaque_nil in He1. apply end_split_nil in He2. subst ei subrest.
    apply when_ok_some in Hx as (_ & Hx). apply opt_map2_some in Hx as (x1 & i1 & -> & -> & ->).
    destruct (Hi _ _ _ Ei) as [Hg Hc]. destruct (He _ _ _ Ee) as [Hgi _].
    cbn [gexpr is_primary]. rewrite Hg, Hc, Hgi. split; reflexivity.
  - intros [= -> <-]. destruct (Hi _ _ _ Ei) as [Hg Hc]. split; [exact Hg|apply inner_primary; exact Hc].
Qed.

Lemma g_inner f : G_class pexpr any f -> G_list f -> G_class pinner is_inner (S f).
Proof.
  intros He Hl ts x rest. rewrite p_inner_S. destruct ts as [|t r]; [discriminate|].
  destruct (is_kind KNumber t || is_kind KString t).
  { intros [= <- <-]. split; reflexivity. }
  assert (Hq : forall ps (r1 : list token) (e : errs), (option_map EQual ps, r1, e) = (Some x, rest, []) -> gexpr x = true /\ is_inner x = true).
  { intros ps r1 e [= Hps <- ->]. apply option_map_some in Hps as (ps' & -> & ->). split; reflexivity. }
  destruct (is_kind KIdentifier t).
  { destruct (p_qualified srclen (t :: r)) as [[ps r1] e] eqn:Epq.
    destruct ps as [[|i [|j l]]|]; try (intros H; eapply Hq; exact H).
    destruct r1 as [|lp r2]; [intros [= <- <-]; split; reflexivity|].
    destruct (is_kind KLParen lp); [|intros [= <- <-]; split; reflexivity].
    destruct (split KRParen r2) as [sub rest0].
    destruct (plist f sub) as [[args subrest] ea] eqn:El.
    destruct (is_nf ea).
    - destruct rest0 as [|c rest']; [discriminate|]. destruct (is_kind KRParen c); [|discriminate].
      intros [= Hx <- Her]. cbn [app] in Her. apply end_split_nil in Her. subst subrest.
      cbn [app when_ok no_err end_split option_map] in Hx. injection Hx as <-. split; reflexivity.
    - destruct (no_err ea) eqn:Ene.
      + apply no_err_true in Ene. subst ea.
        assert (Hcase : forall subrest',
                  match rest0 with
                  | c :: rest' =>
                    if is_kind KRParen c then
                      (when_ok ([] ++ end_split subrest') (option_map (fun a => ECall i (tok_span lp) a (tok_span c)) args), rest', [] ++ end_split subrest')
                    else (None, rest0, ([] ++ end_split subrest') ++ err_at (tstart c))
                  | [] => (None, [], ([] ++ end_split subrest') ++ err_at srclen)
                  end = (Some x, rest, []) -> gexpr x = true /\ is_inner x = true).
        { intros subrest'. destruct rest0 as [|c rest']; [discriminate|]. destruct (is_kind KRParen c); [|discriminate].
          cbn [app]. intros [= Hx <- Her]. apply end_split_nil in Her. subst subrest'.
          cbn [when_ok no_err end_split] in Hx. apply option_map_some in Hx as (a & -> & ->).
          cbn [gexpr is_inner]. rewrite (Hl _ _ _ El). split; reflexivity. }
        destruct subrest as [|c0 sr]; [apply Hcase|]. destruct (is_kind KComma c0); apply Hcase.
      + destruct rest0 as [|c rest']; [discriminate|]. destruct (is_kind KRParen c); [|discriminate].
        intros [= _ _ Her]. apply app_nil_inv in Her as [-> _]. discriminate. }
  destruct (is_kind KQuotedIdentifier t).
  { destruct (p_qualified srclen (t :: r)) as [[ps r1] e]. intros H. eapply Hq; exact H. }
  destruct (is_kind KLParen t); [|discriminate].
  destruct (split KRParen r) as [sub rest0].
  destruct (pexpr f sub) as [[x0 subrest] ex] eqn:Ee.
  destruct rest0 as [|c rest']; [discriminate|]. destruct (is_kind KRParen c); [|discriminate].
  intros [= Hx <- Her]. apply app_nil_inv in Her as [He1 He2]. apply opaque_nil in He1. apply end_split_nil in He2. subst ex subrest.
  apply when_ok_some in Hx as (_ & Hx). apply option_map_some in Hx as (x1 & -> & ->).
  destruct (He _ _ _ Ee) as [Hg _]. cbn [gexpr is_inner]. rewrite Hg. split; reflexivity.
Qed.

Lemma g_list f : G_class pexpr any f -> G_tail f -> G_list (S f).
Proof.
  intros He Ht ts xs rest. rewrite p_expr_list_S.
  destruct (pexpr f ts) as [[x r1] e1] eqn:Ee.
  destruct (negb (no_err e1)) eqn:Ene; [discriminate|].
  apply Bool.negb_false_iff in Ene. apply no_err_true in Ene. subst e1.
  destruct (ptail f r1) as [[xs' r2] e2] eqn:Et.
  intros [= Hx <- ->]. cbn [when_ok no_err] in Hx. apply opt_map2_some in Hx as (x1 & xs1 & -> & -> & ->).
  cbn [forallb]. rewrite (proj1 (He _ _ _ Ee)), (Ht _ _ _ Et). reflexivity.
Qed.

Lemma g_tail f : G_class pexpr any f -> G_tail f -> G_tail (S f).
Proof.
  intros He Ht ts xs rest. rewrite p_expr_list_tail_S.
  destruct ts as [|c r]; [intros [= <- <-]; reflexivity|].
  destruct (is_kind KComma c); [|intros [= <- <-]; reflexivity].
  destruct (pexpr f r) as [[x r1] e1] eqn:Ee.
  destruct (is_nf e1); [intros [= <- <-]; reflexivity|].
  destruct (negb (no_err e1)) eqn:Ene; [discriminate|].
  apply Bool.negb_false_iff in Ene. apply no_err_true in Ene. subst e1.
  destruct (ptail f r1) as [[xs' r2] e2] eqn:Et.
  intros [= Hx <- ->]. cbn [when_ok no_err] in Hx. apply opt_map2_some in Hx as (x1 & xs1 & -> & -> & ->).
  cbn [forallb]. rewrite (proj1 (He _ _ _ Ee)), (Ht _ _ _ Et). reflexivity.
Qed.

Lemma g_expr f : G_class punary is_operand f -> G_trail f -> G_class pexpr any (S f).
Proof.
  intros Hu Ht ts x rest. rewrite p_expr_S.
  destruct (punary f ts) as [[x0 r1] e1] eqn:Eu.
  destruct (is_nf e1) eqn:Enf.
  { intros [= _ _ ->]. discriminate. }
  destruct (ptrail f x0 0%Z r1) as [[x' r2] e2] eqn:Et.
  intros [= Hx <- Her]. apply app_nil_inv in Her as [-> ->]. cbn [app when_ok no_err] in Hx. subst x'.
  destruct (sound_all srclen f) as (_ & _ & _ & _ & _ & _ & (Hts & _) & _).
  destruct (Hts _ _ _ _ _ Et) as (x1 & u2 & -> & _ & _).
  destruct (Hu _ _ _ Eu) as [Hg Hc].
  destruct (Ht _ _ _ _ _ Et x1 eq_refl Hg (takeok_top _ _ _ (proj1 (operand_levels _ Hc))) ltac:(lia)) as (Hge & _ & _).
  split; [exact Hge|reflexivity].
Qed.

Lemma g_trail f : G_class punary is_operand f -> G_list f -> G_trail f -> G_higher f -> G_trail (S f).
Proof.
  intros Hu Hl Ht Hh xo minp ts e rest. rewrite p_trail_S. cbv zeta.
  destruct (sound_all srclen f) as (_ & _ & _ & _ & _ & _ & (Hts & _) & (Hhs & _)).
  destruct ts as [|op1 r].
  { intros [= -> <-] x [= <-] Hg _ _. repeat split; [exact Hg|lia]. }
  destruct ((op_prec (tkind op1) <? 0)%Z || (op_prec (tkind op1) <? minp)%Z) eqn:Eprec.
  { intros [= -> <-] x [= <-] Hg _ Hm. repeat split; [exact Hg|lia|]. cbn [stopT].
    apply Bool.orb_true_iff in Eprec as [E|E]; apply Z.ltb_lt in E; lia. }
  apply orb_false in Eprec as [Ep0 Epm]. apply Z.ltb_ge in Ep0. apply Z.ltb_ge in Epm.
  destruct (is_kind KIn op1) eqn:Ein.
  - destruct r as [|lp r1]; [discriminate|].
    destruct (is_kind KLParen lp); [|discriminate].
    destruct (split KRParen r1) as [sub rest0].
    destruct (plist f sub) as [[vals subrest] ev] eqn:El.
    destruct rest0 as [|c rest']; [discriminate|].
    destruct (is_kind KRParen c); [|discriminate].
    set (e1 := opaque ev ++ end_split subrest).
    destruct (ptrail f (when_ok e1 (opt_map2 (fun x v => EIn x (tok_span op1) (tok_span lp) v (tok_span c)) xo vals)) minp rest') as [[x'' r2] e2] eqn:Et.
    intros [= Hx <- Her] x Hxo Hg Htake Hm. apply app_nil_inv in Her as [He1 ->]. rewrite He1 in *. cbn [app when_ok no_err] in Hx, Et. subst x''.
    subst e1. apply app_nil_inv in He1 as [Hev Hsr]. apply opaque_nil in Hev. apply end_split_nil in Hsr. subst ev subrest.
    destruct (Hts _ _ _ _ _ Et) as (xin & u3 & Hxin & _ & _).
    subst xo. apply opt_map2_some in Hxin as (x0 & vs & [= <-] & -> & ->).
    apply is_kind_eq in Ein. cbn [takeok] in Htake. rewrite Ein in *. specialize (Htake Epm).
    assert (Hgin : gexpr (EIn x (tok_span op1) (tok_span lp) vs (tok_span c)) = true).
    { cbn [gexpr]. rewrite Hg, (Hl _ _ _ El). cbn [andb]. apply Z.leb_le. exact Htake. }
    destruct (Ht _ _ _ _ _ Et _ eq_refl Hgin (takeok_top (EIn x (tok_span op1) (tok_span lp) vs (tok_span c)) minp rest' eq_refl) Hm) as (Hge & Hlo & Hst).
    repeat split; [exact Hge| |exact Hst]. cbn [lo] in Hlo. lia.
  - destruct (punary f r) as [[y r1] ey] eqn:Eu.
    destruct (phigher f y (op_prec (tkind op1)) r1) as [[y' r2] e2] eqn:Eh.
    set (e1 := opaque ey).
    destruct (ptrail f (when_ok (e1 ++ e2) (opt_map2 (fun x y => EBin x (tok_span op1) (tkind op1) y) xo y')) minp r2) as [[x'' r3] e3] eqn:Et.
    intros [= Hx <- Her] x Hxo Hg Htake Hm. apply app_nil_inv in Her as [He1 He23]. apply app_nil_inv in He23 as [-> ->].
    rewrite He1 in *. cbn [app when_ok no_err] in Hx, Et. subst x''. subst e1. apply opaque_nil in He1. subst ey.
    destruct (Hts _ _ _ _ _ Et) as (xb & u3 & Hxb & _ & _).
    subst xo. apply opt_map2_some in Hxb as (x0 & y1 & [= <-] & -> & ->).
    destruct (Hhs _ _ _ _ _ Eh) as (y0 & u2 & -> & _ & _).
    destruct (Hu _ _ _ Eu) as [Hgy Hcy]. destruct (operand_levels _ Hcy) as [Hhi Hlo].
    destruct (Hh _ _ _ _ _ Eh y0 eq_refl Hgy (takeok_top _ _ _ Hhi) Ep0) as (Hgy1 & Hloy & HstH).
    cbn [takeok] in Htake. specialize (Htake Epm).
    pose proof (op_prec_lt_above (tkind op1)) as Hlt.
    assert (Hgb : gexpr (EBin x (tok_span op1) (tkind op1) y1) = true).
    { cbn [gexpr]. rewrite Hg, Hgy1. cbn [andb]. apply andb_true_intro. split; [apply Z.leb_le; exact Htake|apply Z.ltb_lt; lia]. }
    assert (Htk : takeok (EBin x (tok_span op1) (tkind op1) y1) minp r2).
    { destruct r2 as [|t2 r2']; [exact I|]. cbn [takeok stopH hi] in *. intros _. exact HstH. }
    destruct (Ht _ _ _ _ _ Et _ eq_refl Hgb Htk Hm) as (Hge & Hloe & Hst).
    repeat split; [exact Hge| |exact Hst]. cbn [lo] in Hloe. lia.
Qed.

Lemma g_higher f : G_trail f -> G_higher f -> G_higher (S f).
Proof.
  intros Ht Hh yo prec1 ts e rest. rewrite p_higher_S. cbv zeta.
  destruct (sound_all srclen f) as (_ & _ & _ & _ & _ & _ & (Hts & _) & (Hhs & _)).
  destruct ts as [|op2 r].
  { intros [= -> <-] y [= <-] Hg _ _. repeat split; [exact Hg|lia]. }
  destruct ((op_prec (tkind op2) <? 0)%Z || (op_prec (tkind op2) <=? prec1)%Z) eqn:Eprec.
  { intros [= -> <-] y [= <-] Hg _ Hp. repeat split; [exact Hg|lia|]. cbn [stopH].
    apply Bool.orb_true_iff in Eprec as [E|E]; [apply Z.ltb_lt in E|apply Z.leb_le in E]; lia. }
  destruct (ptrail f yo (prec1 + 1)%Z (op2 :: r)) as [[y' r1] e1] eqn:Et.
  destruct (phigher f y' prec1 r1) as [[y'' r2] e2] eqn:Eh.
  intros [= Hx <- Her] y Hyo Hg Htake Hp. apply app_nil_inv in Her as [He1 ->]. apply opaque_nil in He1. subst e1.
  cbn [opaque map app when_ok no_err] in Hx. subst y''.
  destruct (Hhs _ _ _ _ _ Eh) as (ym & u2 & -> & _ & _).
  destruct (Ht _ _ _ _ _ Et y Hyo Hg Htake ltac:(lia)) as (Hgm & Hlom & Hstm).
  assert (Htk : takeok ym (prec1 + 1) r1).
  { destruct r1 as [|t1 r1']; [exact I|]. cbn [takeok stopT] in *. intros Hc. lia. }
  destruct (Hh _ _ _ _ _ Eh ym eq_refl Hgm Htk Hp) as (Hge & Hloe & Hst).
  repeat split; [exact Hge|lia|exact Hst].
Qed.

Theorem gram_all f : Gram f.
Proof.
  induction f as [|f (He & Hu & Hp & Hi & Hl & Ht & Htr & Hh)]; [apply gram_0|].
  unfold Gram.
  split; [apply g_expr; assumption|]. split; [apply g_unary; assumption|]. split; [apply g_primary; assumption|].
  split; [apply g_inner; assumption|]. split; [apply g_list; assumption|]. split; [apply g_tail; assumption|].
  split; [apply g_trail; assumption|apply g_higher; assumption].
Qed.

Theorem p_expr_gram f ts x rest : pexpr f ts = (Some x, rest, []) -> gexpr x = true.
Proof. intros H. destruct (gram_all f) as (He & _). exact (proj1 (He _ _ _ H)). Qed.

Theorem p_expr_list_gram f ts xs rest : plist f ts = (Some xs, rest, []) -> forallb gexpr xs = true.
Proof. intros H. destruct (gram_all f) as (_ & _ & _ & _ & Hl & _). exact (Hl _ _ _ H). Qed.

End Gram.
