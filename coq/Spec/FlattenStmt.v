(** * FlattenStmt: the token sequence of operators, statements and programs (specification for
    C08/C10, continuing Spec/Flatten.v).  [toks_prog stmts tokens]: [tokens] is the program's
    token sequence; the only freedoms are those the property allows -- a comma directly before
    `by` in summarize (and before ')' of a call, in [toks_args]) and empty statements. *)
From PQL Require Export Spec.Flatten.
From Coq Require Import String.
Local Open Scope list_scope.
Local Notation length := List.length (only parsing).

(** a non-empty comma-separated list of [P]s *)
Inductive toks_sep {A} (P : A -> list token -> Prop) : list A -> list token -> Prop :=
| ts_one a ta : P a ta -> toks_sep P [a] ta
| ts_more a ta c r tr : P a ta -> tkind c = KComma -> toks_sep P r tr -> toks_sep P (a :: r) (ta ++ c :: tr).

(** a keyword recognised by position: an identifier token spelled as one of [ws] *)
Definition kw_tok (ws : list str) (sp : span) (t : token) : Prop :=
  tkind t = KIdentifier /\ In (tvalue t) ws /\ tok_span t = sp.

(** asc / desc: direction, its span, and the default for "nulls first" *)
Inductive toks_dir : bool -> span -> bool -> list token -> Prop :=
| td_none : toks_dir false None false []
| td_asc sp t : kw_tok [w_asc] sp t -> toks_dir true sp true [t]
| td_desc sp t : kw_tok [w_desc] sp t -> toks_dir false sp false [t].

Inductive toks_nulls (dflt : bool) : bool -> span -> list token -> Prop :=
| tn_none : toks_nulls dflt dflt None []
| tn_first t t2 : kw_tok [w_nulls] (tok_span t) t -> kw_tok [w_first] (tok_span t2) t2 ->
    toks_nulls dflt true (Some (tstart t, tend t2)) [t; t2]
| tn_last t t2 : kw_tok [w_nulls] (tok_span t) t -> kw_tok [w_last] (tok_span t2) t2 ->
    toks_nulls dflt false (Some (tstart t, tend t2)) [t; t2].

Inductive toks_sort_term : sort_term -> list token -> Prop :=
| tst x asc asp dflt nf nsp tx ta tn : toks_expr x tx -> toks_dir asc asp dflt ta -> toks_nulls dflt nf nsp tn ->
    toks_sort_term (mkSortTerm x asc asp nf nsp) (tx ++ ta ++ tn).

Inductive toks_ext_col : ext_col -> list token -> Prop :=
| tec_named i asp x ti ta tx : ident_tok i ti -> is_tok KAssign asp ta -> toks_expr x tx ->
    toks_ext_col (mkExtCol (Some i) asp x) (ti :: ta :: tx)
| tec_plain x tx : toks_expr x tx -> toks_ext_col (mkExtCol None None x) tx.

Inductive toks_proj_col : proj_col -> list token -> Prop :=
| tpc_name i ti : ident_tok i ti -> toks_proj_col (mkProjCol i None None) [ti]
| tpc_assign i asp x ti ta tx : ident_tok i ti -> is_tok KAssign asp ta -> toks_expr x tx ->
    toks_proj_col (mkProjCol i asp (Some x)) (ti :: ta :: tx).

Inductive toks_render_prop : render_prop -> list token -> Prop :=
| trp i asp x ti ta tx : ident_tok i ti -> is_tok KAssign asp ta -> toks_expr x tx ->
    toks_render_prop (mkRenderProp i asp x) (ti :: ta :: tx).

(** what follows `summarize`: columns (possibly none), then optionally `by` and the grouping
    columns; a comma may sit directly before `by` *)
Inductive toks_summ : list ext_col -> span -> list ext_col -> list token -> Prop :=
| tsm_cols cols tc : toks_sep toks_ext_col cols tc -> toks_summ cols None [] tc
| tsm_by_only bsp gs b tg : is_tok KBy bsp b -> toks_sep toks_ext_col gs tg -> toks_summ [] bsp gs (b :: tg)
| tsm_by cols bsp gs tc b tg : toks_sep toks_ext_col cols tc -> is_tok KBy bsp b -> toks_sep toks_ext_col gs tg ->
    toks_summ cols bsp gs (tc ++ b :: tg)
| tsm_comma_by cols bsp gs tc c b tg : toks_sep toks_ext_col cols tc -> tkind c = KComma -> is_tok KBy bsp b ->
    toks_sep toks_ext_col gs tg -> toks_summ cols bsp gs (tc ++ c :: b :: tg).

(** the optional `kind = flavor` of a join *)
Inductive toks_join_kind : span -> span -> option ident -> list token -> Prop :=
| tjk_none : toks_join_kind None None None []
| tjk_some ksp asp fl tk ta tf : kw_tok [w_kind] ksp tk -> is_tok KAssign asp ta -> ident_tok fl tf -> iquoted fl = false ->
    is_join_type (iname fl) = true -> toks_join_kind ksp asp (Some fl) [tk; ta; tf].

(** the optional `with ( prop, ... )` of render *)
Inductive toks_render_with : span -> span -> list render_prop -> span -> list token -> Prop :=
| trw_none : toks_render_with None None [] None []
| trw_some wsp lsp props rsp tw tl tp tr : kw_tok [w_with] wsp tw -> is_tok KLParen lsp tl ->
    toks_sep toks_render_prop props tp -> is_tok KRParen rsp tr ->
    toks_render_with wsp lsp props rsp (tw :: tl :: tp ++ [tr]).

(** an operator, from its pipe to its last token *)
Inductive toks_op : operator -> list token -> Prop :=
| to_count psp ksp p n : is_tok KPipe psp p -> kw_tok [w_count] ksp n -> toks_op (OCount psp ksp) [p; n]
| to_where psp ksp x p n tx : is_tok KPipe psp p -> kw_tok [w_where; w_filter] ksp n -> toks_expr x tx ->
    toks_op (OWhere psp ksp x) (p :: n :: tx)
| to_sort psp terms p n b tt : is_tok KPipe psp p -> kw_tok [w_sort; w_order] (tok_span n) n -> tkind b = KBy ->
    toks_sep toks_sort_term terms tt -> toks_op (OSort psp (Some (tstart n, tend b)) terms) (p :: n :: b :: tt)
| to_take psp ksp x p n tx : is_tok KPipe psp p -> kw_tok [w_take; w_limit] ksp n -> toks_expr x tx ->
    toks_op (OTake psp ksp x) (p :: n :: tx)
| to_top psp ksp x bsp col p n tx b tc : is_tok KPipe psp p -> kw_tok [w_top] ksp n -> toks_expr x tx ->
    is_tok KBy bsp b -> toks_sort_term col tc -> toks_op (OTop psp ksp x bsp col) (p :: n :: tx ++ b :: tc)
| to_project psp ksp cols p n tc : is_tok KPipe psp p -> kw_tok [w_project] ksp n -> toks_sep toks_proj_col cols tc ->
    toks_op (OProject psp ksp cols) (p :: n :: tc)
| to_extend psp ksp cols p n tc : is_tok KPipe psp p -> kw_tok [w_extend] ksp n -> toks_sep toks_ext_col cols tc ->
    toks_op (OExtend psp ksp cols) (p :: n :: tc)
| to_summarize psp ksp cols bsp gs p n body : is_tok KPipe psp p -> kw_tok [w_summarize] ksp n -> toks_summ cols bsp gs body ->
    toks_op (OSummarize psp ksp cols bsp gs) (p :: n :: body)
| to_join psp ksp kindsp kasp flavor lsp rsrc rops rsp osp conds p n tk tl tsrc tro tr ton tc :
    is_tok KPipe psp p -> kw_tok [w_join] ksp n -> toks_join_kind kindsp kasp flavor tk ->
    is_tok KLParen lsp tl -> ident_tok rsrc tsrc -> toks_ops rops tro -> is_tok KRParen rsp tr ->
    kw_tok [w_on] osp ton -> toks_list conds tc -> conds <> [] ->
    toks_op (OJoin psp ksp kindsp kasp flavor lsp rsrc rops rsp osp conds)
            (p :: n :: tk ++ tl :: (tsrc :: tro) ++ tr :: ton :: tc)
| to_as psp ksp i p n ti : is_tok KPipe psp p -> kw_tok [w_as] ksp n -> ident_tok i ti -> toks_op (OAs psp ksp i) [p; n; ti]
| to_render psp ksp chart wsp lsp props rsp p n tch tw : is_tok KPipe psp p -> kw_tok [w_render] ksp n -> ident_tok chart tch ->
    toks_render_with wsp lsp props rsp tw -> toks_op (ORender psp ksp chart wsp lsp props rsp) (p :: n :: tch :: tw)

with toks_ops : list operator -> list token -> Prop :=
| tos_nil : toks_ops [] []
| tos_cons o to os tos : toks_op o to -> toks_ops os tos -> toks_ops (o :: os) (to ++ tos).

Definition toks_tab (t : tabular) (ts : list token) : Prop :=
  exists tsrc0 tro, ts = tsrc0 :: tro /\ ident_tok (tsrc t) tsrc0 /\ toks_ops (tops t) tro.

Inductive toks_stmt : stmt -> list token -> Prop :=
| tstm_let ksp i asp x tk ti ta tx : kw_tok [w_let] ksp tk -> ident_tok i ti -> is_tok KAssign asp ta -> toks_expr x tx ->
    toks_stmt (SLet ksp i asp x) (tk :: ti :: ta :: tx)
| tstm_tab t ts : toks_tab t ts -> toks_stmt (STab t) ts.

(** a program: statements separated by semicolon tokens; empty statements leave no trace *)
Inductive toks_prog : list stmt -> list token -> Prop :=
| tp_nil : toks_prog [] []
| tp_empty semi ss rest : tkind semi = KSemi -> toks_prog ss rest -> toks_prog ss (semi :: rest)
| tp_last s ts : toks_stmt s ts -> toks_prog [s] ts
| tp_cons s ts semi ss rest : toks_stmt s ts -> tkind semi = KSemi -> toks_prog ss rest ->
    toks_prog (s :: ss) (ts ++ semi :: rest).
