(** * PqlSem: the meaning of PQL, written directly on the PQL tree (specification).
    [peval]: scalar expressions with PQL's own grouping (parentheses transparent);
    [run_pipeline]: tabular operators applied one after another, left to right. *)
From PQL Require Export Model.Ast Spec.Sem.
From Coq Require Import String.
Local Open Scope list_scope.
Local Notation length := List.length (only parsing).

Definition p_lower : str := Eval vm_compute in L "lower".
Definition p_LOWER : str := Eval vm_compute in L "LOWER".
Definition p_UPPER : str := Eval vm_compute in L "UPPER".
Definition p_concat : str := Eval vm_compute in L "||".
Definition p_now : str := Eval vm_compute in L "CURRENT_TIMESTAMP".
Definition p_not : str := Eval vm_compute in L "not".
Definition p_isnull : str := Eval vm_compute in L "isnull".
Definition p_isnotnull : str := Eval vm_compute in L "isnotnull".
Definition p_iff : str := Eval vm_compute in L "iff".
Definition p_iif : str := Eval vm_compute in L "iif".
Definition p_strcat : str := Eval vm_compute in L "strcat".
Definition p_tolower : str := Eval vm_compute in L "tolower".
Definition p_toupper : str := Eval vm_compute in L "toupper".
Definition p_nowf : str := Eval vm_compute in L "now".
Definition p_countf : str := Eval vm_compute in L "count".
Definition p_countif : str := Eval vm_compute in L "countif".
Definition p_true : str := Eval vm_compute in L "true".
Definition p_false : str := Eval vm_compute in L "false".
Definition p_null : str := Eval vm_compute in L "null".
Definition p_left : str := Eval vm_compute in L "$left".
Definition p_right : str := Eval vm_compute in L "$right".

(** the SQL spelling of the pass-through operators (what [fn] is indexed by) *)
Definition op_name (k : kind) : str :=
  match k with
  | KPlus => L "+" | KMinus => L "-" | KStar => L "*" | KSlash => L "/" | KMod => L "%"
  | KLT => L "<" | KLE => L "<=" | KGT => L ">" | KGE => L ">=" | _ => L "?"
  end.

(** does [$left] / [$right] occur in an expression (function names excepted)? *)
Fixpoint refers (n : str) (e : expr) : bool :=
  match e with
  | EQual ps => existsb (fun i => str_eqb (iname i) n) ps
  | EBin x _ _ y => refers n x || refers n y
  | EUnary _ _ x => refers n x
  | EIn x _ _ vs _ => refers n x || existsb (refers n) vs
  | EParen _ x _ => refers n x
  | ELit _ _ _ => false
  | ECall _ _ args _ => existsb (refers n) args
  | EIndex x _ i _ => refers n x || refers n i
  end.

Section Peval.
Variable F : fenv.
Variable is_bound : str -> bool.
Variable join_mode : bool.

Definition not_null2 (a b : value) : bool :=
  match a, b with VNull, _ | _, VNull => false | _, _ => true end.

Fixpoint peval (e : env) (x : expr) {struct x} : value :=
  match x with
  | EParen _ a _ => peval e a
  | EQual [p] =>
    if negb (iquoted p) && is_bound (iname p) then bound F (iname p)
    else if negb (iquoted p) && str_eqb (iname p) p_true then VBool true
    else if negb (iquoted p) && str_eqb (iname p) p_false then VBool false
    else if negb (iquoted p) && str_eqb (iname p) p_null then VNull
    else col_value e [iname p]
  | EQual ps => col_value e (map iname ps)
  | ELit _ KNumber v => fn F (L "number") [VStr v]
  | ELit _ _ v => VStr v
  | EUnary _ op a => fn F (L "unary" ++ match op with KMinus => L "-" | _ => L "+" end) [peval e a]
  | EBin a _ op b =>
    let va := peval e a in let vb := peval e b in
    match op with
    | KEq =>
      (* == never yields NULL; between the two sides of a join it is plain equality *)
      if join_mode && ((refers p_left a || refers p_left b) && (refers p_right a || refers p_right b))
      then v_eq va vb
      else VBool (not_null2 va vb && value_eqb va vb)
    | KNE => VBool (not_null2 va vb && negb (value_eqb va vb))
    | KCaseInsensitiveEq => v_eq (fn F p_lower [va]) (fn F p_lower [vb])
    | KCaseInsensitiveNE => v_not (v_eq (fn F p_lower [va]) (fn F p_lower [vb]))
    | KAnd => v_and va vb
    | KOr => v_or va vb
    | KPlus | KMinus | KStar | KSlash | KMod | KLT | KLE | KGT | KGE => fn F (op_name op) [va; vb]
    | _ => VNull
    end
  | EIn a _ _ vs _ => v_in (peval e a) (map (peval e) vs)
  | EIndex a _ i _ => fn F (L "index") [peval e a; peval e i]
  | ECall f _ args _ =>
    let n := iname f in
    let vs := map (peval e) args in
    if str_eqb n p_not then match vs with [a] => v_not a | _ => VNull end
    else if str_eqb n p_isnull then match vs with [a] => VBool (match a with VNull => true | _ => false end) | _ => VNull end
    else if str_eqb n p_isnotnull then match vs with [a] => VBool (match a with VNull => false | _ => true end) | _ => VNull end
    else if str_eqb n p_iff || str_eqb n p_iif then
      match args with [c; t; f'] => if is_true (peval e c) then peval e t else peval e f' | _ => VNull end
    else if str_eqb n p_strcat then
      match vs with a :: r => fold_left (fun acc b => fn F p_concat [acc; b]) r a | [] => VNull end
    else if str_eqb n p_tolower then match vs with [a] => fn F p_LOWER [a] | _ => VNull end
    else if str_eqb n p_toupper then match vs with [a] => fn F p_UPPER [a] | _ => VNull end
    else if str_eqb n p_nowf then fn F p_now []
    else if str_eqb n p_countf then
      (if is_agg F p_countf then agg F p_countf (map (fun _ => []) (e_group e)) else fn F p_countf [])
    else if str_eqb n p_countif then
      match args with
      | [c] => VInt (Z.of_nat (length (filter (fun r => is_true (peval (mkEnv r (e_left e) (e_right e) [r]) c)) (e_group e))))
      | _ => VNull
      end
    else if is_agg F n then agg F n (map (fun r => map (peval (mkEnv r (e_left e) (e_right e) [r])) args) (e_group e))
    else if str_eqb n (L "coalesce") then
      match vs with [a; b] => v_coalesce a b | _ => VNull end
    else fn F n vs
  end.

End Peval.
