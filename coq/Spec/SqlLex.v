(** * SqlLex: the lexical rules of the target SQL dialect, as a written specification.
    Two modes: [Standard] (backslash is an ordinary character inside quotes) and [ClickHouse]
    (backslash escapes the next character inside '...' and "...").  This file is part of the
    trusted base: it defines what "lexes as" means in C01, C04 and C05. *)
From PQL Require Export Model.Base.

Inductive sqlmode := Standard | ClickHouse.

Inductive stok :=
| SQuoted (s : str)     (* "..." : a quoted identifier, decoded *)
| SString (s : str)     (* '...' : a string literal, decoded *)
| SNumber (s : str)     (* a number, as spelled *)
| SWord (s : str)       (* a bare word, as spelled *)
| SPunct (s : str)      (* punctuation and operators *)
| SParam (s : str).     (* {...} : a parameter placeholder, opaque *)

Definition is_sql_space (c : N) : bool := (c =? 32) || (c =? 9) || (c =? 10) || (c =? 13).
Definition is_word_start (c : N) : bool := is_alpha c || (c =? 95) || (c =? 36).
Definition is_word_char (c : N) : bool := is_alpha c || is_digit c || (c =? 95) || (c =? 36).

(** what a backslash escape stands for in ClickHouse mode *)
Definition unescape (c : N) : N :=
  if c =? 110 then 10 else if c =? 116 then 9 else if c =? 114 then 13 else if c =? 48 then 0
  else if c =? 98 then 8 else if c =? 102 then 12 else if c =? 97 then 7 else if c =? 118 then 11 else c.

(** [quoted_tail m q l]: scan after the opening quote [q]; the decoded content and the rest
    of the input after the closing quote, or [None] if the quote is never closed. *)
Fixpoint quoted_tail (m : sqlmode) (q : N) (l : str) : option (str * str) :=
  match l with
  | [] => None
  | c :: r =>
    if c =? q then
      match r with
      | c2 :: r2 => if c2 =? q then option_map (fun vr => (q :: fst vr, snd vr)) (quoted_tail m q r2)
                    else Some ([], r)
      | [] => Some ([], [])
      end
    else if (c =? 92) && (match m with ClickHouse => true | Standard => false end) then
      match r with
      | e :: r2 => option_map (fun vr => (unescape e :: fst vr, snd vr)) (quoted_tail m q r2)
      | [] => None
      end
    else option_map (fun vr => (c :: fst vr, snd vr)) (quoted_tail m q r)
  end.

Fixpoint line_comment_rest (l : str) : str :=
  match l with
  | [] => []
  | c :: r => if c =? 10 then r else line_comment_rest r
  end.

Fixpoint block_comment_rest (l : str) : option str :=
  match l with
  | [] => None
  | c :: r =>
    match r with
    | c2 :: r2 => if (c =? 42) && (c2 =? 47) then Some r2 else block_comment_rest r
    | [] => None
    end
  end.

Fixpoint brace_rest (l : str) : option (str * str) :=
  match l with
  | [] => None
  | c :: r => if c =? 125 then Some ([], r) else option_map (fun vr => (c :: fst vr, snd vr)) (brace_rest r)
  end.

(** number: digits [. digits] [e [+-] digits]  |  . digits+ [exponent] *)
Definition number_len (l : str) : nat :=
  let d1 := length (take_while is_digit l) in
  let r1 := skipn d1 l in
  let frac :=
    match r1 with
    | c :: r => if c =? 46 then
                  let d2 := length (take_while is_digit r) in
                  if Nat.eqb d1 0 && Nat.eqb d2 0 then 0%nat else S d2
                else 0%nat
    | [] => 0%nat
    end in
  if Nat.eqb d1 0 && Nat.eqb frac 0 then 0%nat
  else
    let r2 := skipn frac r1 in
    let ex :=
      match r2 with
      | e :: r =>
        if (e =? 101) || (e =? 69) then
          match r with
          | s :: r' =>
            if (s =? 43) || (s =? 45) then
              match take_while is_digit r' with [] => 0%nat | ds => (2 + length ds)%nat end
            else match take_while is_digit r with [] => 0%nat | ds => (1 + length ds)%nat end
          | [] => 0%nat
          end
        else 0%nat
      | [] => 0%nat
      end in
    (d1 + frac + ex)%nat.

Definition two_char_ops : list (N * N) := [(60, 62); (60, 61); (62, 61); (124, 124); (33, 61)].
Definition one_char_puncts : list N := [40; 41; 91; 93; 44; 46; 59; 61; 60; 62; 43; 45; 42; 47; 37; 63; 58].

Fixpoint sql_lex_fuel (fuel : nat) (m : sqlmode) (l : str) : option (list stok) :=
  match fuel with
  | O => None
  | S f =>
    match l with
    | [] => Some []
    | c :: r =>
      if is_sql_space c then sql_lex_fuel f m r
      else if (c =? 45) && (match r with c2 :: _ => c2 =? 45 | [] => false end) then
        sql_lex_fuel f m (line_comment_rest r)
      else if (c =? 47) && (match r with c2 :: _ => c2 =? 42 | [] => false end) then
        match block_comment_rest (tl r) with
        | Some rest => sql_lex_fuel f m rest
        | None => None
        end
      else if c =? 34 then
        match quoted_tail m 34 r with
        | Some (v, rest) => option_map (cons (SQuoted v)) (sql_lex_fuel f m rest)
        | None => None
        end
      else if c =? 39 then
        match quoted_tail m 39 r with
        | Some (v, rest) => option_map (cons (SString v)) (sql_lex_fuel f m rest)
        | None => None
        end
      else if c =? 123 then
        match brace_rest r with
        | Some (v, rest) => option_map (cons (SParam v)) (sql_lex_fuel f m rest)
        | None => None
        end
      else if is_word_start c then
        let w := c :: take_while is_word_char r in
        option_map (cons (SWord w)) (sql_lex_fuel f m (skipn (length w) l))
      else if negb (Nat.eqb (number_len l) 0) then
        let n := number_len l in
        option_map (cons (SNumber (firstn n l))) (sql_lex_fuel f m (skipn n l))
      else
        match r with
        | c2 :: r2 =>
          if existsb (fun p => (fst p =? c) && (snd p =? c2)) two_char_ops
          then option_map (cons (SPunct [c; c2])) (sql_lex_fuel f m r2)
          else if existsb (N.eqb c) one_char_puncts then option_map (cons (SPunct [c])) (sql_lex_fuel f m r)
          else None
        | [] => if existsb (N.eqb c) one_char_puncts then Some [SPunct [c]] else None
        end
    end
  end.

Definition sql_lex (m : sqlmode) (l : str) : option (list stok) := sql_lex_fuel (S (length l)) m l.

(** token shape: the kind of a token without its payload *)
Inductive sshape := ShQuoted | ShString | ShNumber | ShWord (w : str) | ShPunct (p : str) | ShParam.
Definition shape_of (t : stok) : sshape :=
  match t with
  | SQuoted _ => ShQuoted | SString _ => ShString | SNumber _ => ShNumber
  | SWord w => ShWord w | SPunct p => ShPunct p | SParam _ => ShParam
  end.

Definition sshape_eqb (a b : sshape) : bool :=
  match a, b with
  | ShQuoted, ShQuoted | ShString, ShString | ShNumber, ShNumber | ShParam, ShParam => true
  | ShWord x, ShWord y | ShPunct x, ShPunct y => str_eqb x y
  | _, _ => false
  end.

Fixpoint shapes_eqb (a b : list sshape) : bool :=
  match a, b with
  | [], [] => true
  | x :: a', y :: b' => sshape_eqb x y && shapes_eqb a' b'
  | _, _ => false
  end.
