(** * PipeSem: what a pipeline means (operators applied one after another, left to right) and
    what a list of subqueries means (each SELECT: source, then its operator, then ORDER BY, then
    LIMIT; a later subquery sees the earlier ones by name).  Both are parametrised by the
    expression evaluator [ev] so that the same definitions serve the PQL side ([peval]) and the
    SQL side ([seval] of the translated tree). *)
From PQL Require Export Model.Compile Spec.Sem.
From Coq Require Import String.
Local Open Scope list_scope.
Local Notation length := List.length (only parsing).

Section PipeSem.
Variable F : fenv.
Variable ev : bool -> env -> expr -> value.     (* join mode?, environment, expression *)
Variable source : str.                           (* the program text (implicit column names) *)

Definition ev_row (r : row) (x : expr) : value := ev false (row_env r) x.

Definition col_name (c : ext_col) : str :=
  match ec_name c with Some i => iname i | None => implicit_name source (ec_x c) end.

(** ** sort and limit *)
Definition row_leb (terms : list sort_term) (a b : row) : bool :=
  match cmp_keys F (map (fun t => (st_asc t, st_nullsfirst t, ev_row a (st_x t), ev_row b (st_x t))) terms) with
  | Gt => false
  | _ => true
  end.
Definition sort_rows (terms : list sort_term) (t : table) : table := sort_by (row_leb terms) t.

Definition take_rows (n : expr) (t : table) : table :=
  match ev_row [] n with
  | VInt z => firstn (Z.to_nat z) t
  | _ => t
  end.

(** ** one operator applied to a table (joins are handled with the database, below) *)
Definition w_count_col : str := Eval vm_compute in L "count()".
Definition w_render_type : str := Eval vm_compute in L "render_type".
Definition w_render_prop : str := Eval vm_compute in L "render_prop_".

Definition apply_op (o : operator) (t : table) : table :=
  match o with
  | OWhere _ _ p => filter (fun r => is_true (ev_row r p)) t
  | OProject _ _ cols =>
    map (fun r => map (fun c => (iname (pc_name c),
                                 ev_row r (match pc_x c with Some x => x | None => EQual [pc_name c] end))) cols) t
  | OExtend _ _ cols => map (fun r => r ++ map (fun c => (col_name c, ev_row r (ec_x c))) cols) t
  | OSummarize _ _ cols _ groupby =>
    let groups := match groupby with
                  | [] => [t]
                  | _ => group_by (fun r => map (fun c => ev_row r (ec_x c)) groupby) t
                  end in
    map (fun g =>
      let e := mkEnv (match g with r :: _ => r | [] => [] end) [] [] g in
      map (fun c => (col_name c, ev false e (ec_x c))) (groupby ++ cols)) groups
  | OCount _ _ => [[(w_count_col, VInt (Z.of_nat (length t)))]]
  | OSort _ _ terms => sort_rows terms t
  | OTake _ _ n => take_rows n t
  | OTop _ _ n _ c => take_rows n (sort_rows [c] t)
  | OAs _ _ _ => t
  | ORender _ _ chart _ _ props _ =>
    map (fun r => r ++ (w_render_type, VStr (iname chart))
                    :: map (fun p => (w_render_prop ++ iname (rp_name p), VStr (render_value (rp_value p)))) props) t
  | OJoin _ _ _ _ _ _ _ _ _ _ _ => t
  end.

(** join of two tables; the condition sees $left.c / $right.c and the combined row *)
Definition join_rows (unique outer : bool) (cond : expr) (l r : table) : table :=
  let l' := if unique then dedup l else l in
  flat_map (fun lr =>
    let ms := filter (fun rr => is_true (ev true (mkEnv (lr ++ rr) lr rr [lr ++ rr]) cond)) r in
    match ms with
    | [] => if outer then [lr ++ null_row r] else []
    | _ => map (fun rr => lr ++ rr) ms
    end) l'.

(** ** the meaning of a pipeline: left to right *)
Variable sc : scope.    (* bound names: decides which bare names in `on` are column names *)

Definition join_flags (flavor : option ident) : bool * bool :=
  let n := match flavor with Some f => iname f | None => w_innerunique end in
  (str_eqb n w_innerunique, str_eqb n w_leftouter).

Fixpoint run_op (db : database) (cur : table) (o : operator) {struct o} : option (database * table) :=
  match o with
  | OJoin _ _ _ _ flavor _ rsrc rops _ _ conds =>
    match lookup db (iname rsrc) with
    | None => None
    | Some rbase =>
      let right :=
        (fix go (l : list operator) (d : database) (c : table) : option (database * table) :=
           match l with
           | [] => Some (d, c)
           | o' :: r => match run_op d c o' with Some (d', c') => go r d' c' | None => None end
           end) rops db rbase in
      match right with
      | Some (db', rt) =>
        let '(unique, outer) := join_flags flavor in
        Some (db', join_rows unique outer (build_join_cond sc conds) cur rt)
      | None => None
      end
    end
  | OAs _ _ name => Some ((iname name, cur) :: db, cur)
  | _ => Some (db, apply_op o cur)
  end.

Fixpoint run_ops (db : database) (cur : table) (ops : list operator) : option (database * table) :=
  match ops with
  | [] => Some (db, cur)
  | o :: r => match run_op db cur o with Some (db', cur') => run_ops db' cur' r | None => None end
  end.

Definition run_pipeline (db : database) (t : tabular) : option table :=
  match lookup db (iname (tsrc t)) with
  | Some base => option_map snd (run_ops db base (tops t))
  | None => None
  end.

(** ** the meaning of a list of subqueries (WITH ... SELECT) *)
Definition eval_source (db : database) (s : ssource) : option table :=
  match s with
  | SrcName n => lookup db n
  | SrcJoin unique l outer r cond _ =>
    match lookup db l, lookup db r with
    | Some lt, Some rt => Some (join_rows unique outer cond lt rt)
    | _, _ => None
    end
  end.

Definition finish_subq (s : subq) (t : table) : table :=
  let t1 := match sq_sort s with Some terms => sort_rows terms t | None => t end in
  match sq_take s with Some n => take_rows n t1 | None => t1 end.

Definition eval_subq (db : database) (s : subq) : option table :=
  match eval_source db (sq_source s) with
  | Some src => Some (finish_subq s (match sq_op s with Some o => apply_op o src | None => src end))
  | None => None
  end.

(** subqueries are evaluated in order; each is visible to the later ones under its name *)
Fixpoint eval_subqs (db : database) (last : option table) (l : list subq) : option (database * option table) :=
  match l with
  | [] => Some (db, last)
  | s :: r =>
    match eval_subq db s with
    | Some t => eval_subqs ((sq_name s, t) :: db) (Some t) r
    | None => None
    end
  end.

Definition eval_statement (db : database) (l : list subq) : option table :=
  match eval_subqs db None l with
  | Some (_, Some t) => Some t
  | _ => None
  end.

End PipeSem.
