(** * Grammar: which trees the documented grammar prescribes (specification for C07).

    [Spec/Flatten.v] and [Spec/FlattenStmt.v] say which token sequence a tree stands for.  A token
    sequence can stand for several trees (a + b * c is the token sequence of (a + b) * c and of
    a + (b * c)); the predicates below single out the one the grammar prescribes:

    - binary operators group by precedence (the generated [op_prec]: or < and < comparisons and
      `in` < + - < * / %) and to the left among equals;
    - `x in (list)` is a complete test at comparison level, and any operator that follows it takes
      the whole test as its left operand;
    - a sign applies to a primary (tighter than every binary operator, looser than indexing and calls);
    - an index applies to a name, literal, call or parenthesised expression (one index);
    - the row count of take/limit/top, if a literal, is an integer literal;
    - a tabular statement does not start with the unquoted word `let`.

    Everything is a boolean function, so the same definition is run on the implementation's trees by
    the correspondence harness. *)
From PQL Require Export Spec.FlattenStmt.
From Coq Require Import ZArith.
Local Open Scope list_scope.

(** name, literal, call, parenthesised expression *)
Definition is_inner (e : expr) : bool :=
  match e with EQual _ | ELit _ _ _ | ECall _ _ _ _ | EParen _ _ _ => true | _ => false end.
(** ... optionally indexed once *)
Definition is_primary (e : expr) : bool :=
  match e with EIndex x _ _ _ => is_inner x | _ => is_inner e end.
(** ... optionally signed: the operands of binary operators *)
Definition is_operand (e : expr) : bool :=
  match e with EUnary _ _ x => is_primary x | _ => is_primary e end.

(** a level above every binary operator *)
Definition above_all : Z := 5.

(** the level of the operator at the top of [e]: an operator of level p may take [e] as its LEFT
    operand when p <= hi e (left association among equals; an operand and an `in` test accept
    every operator) *)
Definition hi (e : expr) : Z :=
  match e with EBin _ _ op _ => op_prec op | _ => above_all end.

(** the loosest operator on the chain of left operands of [e]: an operator of level p may take [e]
    as its RIGHT operand when p < lo e *)
Fixpoint lo (e : expr) : Z :=
  match e with
  | EBin x _ op _ => Z.min (op_prec op) (lo x)
  | EIn x _ _ _ _ => Z.min (op_prec KIn) (lo x)
  | _ => above_all
  end.

Fixpoint gexpr (e : expr) : bool :=
  match e with
  | EQual _ | ELit _ _ _ => true
  | EParen _ x _ => gexpr x
  | ECall _ _ args _ => forallb gexpr args
  | EIndex x _ i _ => is_inner x && gexpr x && gexpr i
  | EUnary _ _ x => is_primary x && gexpr x
  | EBin x _ op y => gexpr x && gexpr y && (op_prec op <=? hi x)%Z && (op_prec op <? lo y)%Z
  | EIn x _ _ vs _ => gexpr x && forallb gexpr vs && (op_prec KIn <=? hi x)%Z
  end.

Definition grow_count (x : expr) : bool :=
  gexpr x && match x with ELit _ k v => lit_is_integer k v | _ => true end.

Definition gsort_term (t : sort_term) : bool := gexpr (st_x t).
Definition gext_col (c : ext_col) : bool := gexpr (ec_x c).
Definition gproj_col (c : proj_col) : bool := match pc_x c with Some x => gexpr x | None => true end.
Definition grender_prop (p : render_prop) : bool := gexpr (rp_value p).

Definition is_let_word (i : ident) : bool := negb (iquoted i) && str_eqb (iname i) w_let.

Fixpoint gop (o : operator) : bool :=
  match o with
  | OCount _ _ => true
  | OWhere _ _ x => gexpr x
  | OSort _ _ ts => forallb gsort_term ts
  | OTake _ _ n => grow_count n
  | OTop _ _ n _ c => grow_count n && gsort_term c
  | OProject _ _ cs => forallb gproj_col cs
  | OExtend _ _ cs => forallb gext_col cs
  | OSummarize _ _ cs _ gs => forallb gext_col cs && forallb gext_col gs
  | OJoin _ _ _ _ _ _ _ rops _ _ conds => forallb gop rops && forallb gexpr conds
  | OAs _ _ _ => true
  | ORender _ _ _ _ _ ps _ => forallb grender_prop ps
  end.

Definition gstmt (s : stmt) : bool :=
  match s with
  | SLet _ _ _ x => gexpr x
  | STab t => negb (is_let_word (tsrc t)) && forallb gop (tops t)
  end.

Definition gprog (ss : list stmt) : bool := forallb gstmt ss.

(** run by the correspondence harness on every input: a source the parser accepts must be a
    program of the grammar (so, by soundness and completeness, its tree is the prescribed one) *)
Definition show_gram (s : str) : str :=
  match parse s with
  | ParseOk ss => if gprog ss then [79; 75] else [78; 79; 84; 71; 82; 65; 77]
  | ParseErr _ => [69; 82; 82]
  | _ => [73; 78; 84; 69; 82; 78; 65; 76]
  end.
