(** * Expected: the statement structure a PQL program denotes, computed from its tree by the
    objects the semantic theorems are about -- [split_queries] (C02/C03) for the shape and
    [trans] (C01) for every expression -- with bound names replaced by their values (C06).
    [reread] compares it with what the reference reader makes of a SQL text. *)
From PQL Require Export Spec.SqlRead Model.Show.
From Coq Require Import String.
Local Open Scope list_scope.
Local Notation length := List.length (only parsing).
Local Open Scope nat_scope.

Definition escope := list (str * option sexpr).
Definition ebound (sc : escope) (n : str) : bool := existsb (fun kv => str_eqb (fst kv) n) sc.
Fixpoint elookup (sc : escope) (n : str) : option (option sexpr) :=
  match sc with
  | [] => None
  | (k, v) :: r => if str_eqb k n then Some v else elookup r n
  end.

Definition omap_list {A B} (f : A -> option B) : list A -> option (list B) :=
  fix go l := match l with
              | [] => Some []
              | x :: r => match f x, go r with Some y, Some ys => Some (y :: ys) | _, _ => None end
              end.

(** replace every bound name by the tree of its value; [None] if some value is unknown *)
Fixpoint subst (sc : escope) (e : sexpr) {struct e} : option sexpr :=
  match e with
  | XBound n => match elookup sc n with Some (Some v) => Some v | _ => None end
  | XCol _ | XWord _ | XNum _ | XStr _ => Some e
  | XUn op x => option_map (XUn op) (subst sc x)
  | XNot x => option_map XNot (subst sc x)
  | XBin op x y => match subst sc x, subst sc y with Some a, Some b => Some (XBin op a b) | _, _ => None end
  | XIsNull n x => option_map (XIsNull n) (subst sc x)
  | XIn x vs => match subst sc x, omap_list (subst sc) vs with Some a, Some bs => Some (XIn a bs) | _, _ => None end
  | XIndex x i => match subst sc x, subst sc i with Some a, Some b => Some (XIndex a b) | _, _ => None end
  | XCall f args => option_map (XCall f) (omap_list (subst sc) args)
  | XCountIf c => option_map XCountIf (subst sc c)
  | XCase c t e' => match subst sc c, subst sc t, subst sc e' with Some a, Some b, Some d => Some (XCase a b d) | _, _, _ => None end
  end.

Definition tr (sc : escope) (jm : bool) (e : expr) : option sexpr := subst sc (trans (ebound sc) jm e).

Section Expect.
Variable source : str.

Definition exp_from (sc : escope) (s : ssource) : option rfrom :=
  match s with
  | SrcName n => Some (RTable n)
  | SrcJoin u l o r cond _ => option_map (RJoin u l o r) (tr sc true cond)
  end.

Definition exp_ext_col (sc : escope) (c : ext_col) : option rcol :=
  option_map (fun e => RExpr e (Some (match ec_name c with Some i => iname i | None => implicit_name source (ec_x c) end)))
             (tr sc false (ec_x c)).

Definition k_COUNT := Eval vm_compute in L "COUNT".
Definition n_count_col := Eval vm_compute in L "count()".
Definition n_render_type := Eval vm_compute in L "render_type".
Definition n_render_prop := Eval vm_compute in L "render_prop_".

Definition exp_select (sc : escope) (s : subq) : option rsel :=
  match exp_from sc (sq_source s) with
  | None => None
  | Some from =>
    let body : option (list rcol * option sexpr * list sexpr) :=
      match sq_op s with
      | None | Some (OAs _ _ _) => Some ([RStar], None, [])
      | Some (OProject _ _ cols) =>
        option_map (fun cs => (cs, None, []))
          (omap_list (fun col => option_map (fun e => RExpr e (Some (iname (pc_name col))))
                                   (tr sc false (match pc_x col with Some x => x | None => EQual [pc_name col] end))) cols)
      | Some (OExtend _ _ cols) => option_map (fun cs => (RStar :: cs, None, [])) (omap_list (exp_ext_col sc) cols)
      | Some (OSummarize _ _ cols _ groupby) =>
        match omap_list (exp_ext_col sc) groupby, omap_list (exp_ext_col sc) cols, omap_list (fun c => tr sc false (ec_x c)) groupby with
        | Some gs, Some cs, Some ks => Some (gs ++ cs, None, ks)
        | _, _, _ => None
        end
      | Some (OWhere _ _ p) => option_map (fun e => ([RStar], Some e, [])) (tr sc false p)
      | Some (OCount _ _) => Some ([RExpr (XCall k_COUNT [XWord p_star]) (Some n_count_col)], None, [])
      | Some (ORender _ _ chart _ _ props _) =>
        Some (RStar :: RExpr (XStr (iname chart)) (Some n_render_type)
                    :: map (fun p => RExpr (XStr (render_value (rp_value p))) (Some (n_render_prop ++ iname (rp_name p)))) props, None, [])
      | Some _ => None
      end in
    let order := match sq_sort s with
                 | Some terms => omap_list (fun t => option_map (fun e => (e, st_asc t, st_nullsfirst t)) (tr sc false (st_x t))) terms
                 | None => Some []
                 end in
    let limit := match sq_take s with Some n => option_map Some (tr sc false n) | None => Some None end in
    match body, order, limit with
    | Some (cols, wh, gb), Some o, Some l => Some (mkSel cols from wh gb o l)
    | _, _, _ => None
    end
  end.

(** the scope after the let statements before the query (as trees), and the query *)
Fixpoint exp_lets (sc : escope) (q : option tabular) (ss : list stmt) : escope * option tabular :=
  match ss with
  | [] => (sc, q)
  | STab t :: r => match q with Some _ => (sc, q) | None => exp_lets sc (Some t) r end
  | SLet _ name _ x :: r =>
    match q with
    | Some _ => exp_lets sc q r
    | None => exp_lets ((iname name, tr sc false x) :: sc) q r
    end
  end.

Definition expected (params : list (str * str)) (ss : list stmt) : option rstmt :=
  let sc0 : scope := map (fun kv => (fst kv, [PRaw (snd kv)])) params in
  (* a parameter's text is inserted verbatim (the caller's responsibility): only a text that is
     a single token is known to act as one operand; anything else makes the oracle abstain *)
  let esc0 : escope := map (fun kv => (fst kv, match sql_lex ClickHouse (snd kv) with
                                                | Some [t] => read_expr [t]
                                                | _ => None end)) params in
  match stmt_loop sc0 None ss with
  | Ok (sc, Some t) =>
    match split_queries sc [] t with
    | Ok subs =>
      let esc := fst (exp_lets esc0 None ss) in
      match rev subs with
      | [] => None
      | q :: rctes =>
        match omap_list (fun s => option_map (fun sel => (sq_name s, sel)) (exp_select esc s)) (rev rctes), exp_select esc q with
        | Some cs, Some sel => Some (cs, sel)
        | _, _ => None
        end
      end
    | _ => None
    end
  | _ => None
  end.
End Expect.

(** ** canonical printing (for comparison and for the replay) *)
Definition sp : str := [32%N].
Definition par (l : list str) : str := [40%N] ++ List.concat (map (fun s => s ++ sp) l) ++ [41%N].
Definition qs (s : str) : str := [60%N] ++ hex_of s ++ [62%N].

Fixpoint show_sx (e : sexpr) : str :=
  match e with
  | XCol ps => par (L "col" :: map qs ps)
  | XBound n => par [L "bound"; qs n]
  | XWord w => par [L "word"; w]
  | XNum n => par [L "num"; n]
  | XStr s => par [L "str"; qs s]
  | XUn op x => par [L "sign"; op; show_sx x]
  | XNot x => par [L "not"; show_sx x]
  | XBin op x y => par [op; show_sx x; show_sx y]
  | XIsNull n x => par [if n then L "isnotnull" else L "isnull"; show_sx x]
  | XIn x vs => par (L "in" :: show_sx x :: map show_sx vs)
  | XIndex x i => par [L "index"; show_sx x; show_sx i]
  | XCall f args => par (L "call" :: f :: map show_sx args)
  | XCountIf c => par [L "countif"; show_sx c]
  | XCase c t e' => par [L "case"; show_sx c; show_sx t; show_sx e']
  end.

Definition show_bool01 (b : bool) : str := if b then L "1" else L "0".
Definition show_col (c : rcol) : str :=
  match c with
  | RStar => L "*"
  | RExpr e a => par [L "as"; match a with Some n => qs n | None => L "-" end; show_sx e]
  end.
Definition show_from (f : rfrom) : str :=
  match f with
  | RTable n => par [L "table"; qs n]
  | RJoin u l o r c => par [L "join"; show_bool01 u; qs l; show_bool01 o; qs r; show_sx c]
  end.
Definition show_sel (s : rsel) : str :=
  par [L "select"; par (map show_col (r_cols s)); show_from (r_from s);
       match r_where s with Some e => par [L "where"; show_sx e] | None => L "-" end;
       par (L "group" :: map show_sx (r_group s));
       par (L "order" :: map (fun t => par [show_sx (fst (fst t)); show_bool01 (snd (fst t)); show_bool01 (snd t)]) (r_order s));
       match r_limit s with Some e => par [L "limit"; show_sx e] | None => L "-" end].
Definition show_stmt (s : rstmt) : str :=
  par (map (fun c => par [L "cte"; qs (fst c); show_sel (snd c)]) (fst s) ++ [show_sel (snd s)]).

(** the oracle: does [sql] read as the statement the program denotes? *)
Definition reread (params : list (str * str)) (source sql : str) : str :=
  match parse source with
  | ParseOk ss =>
    match expected source params ss with
    | None => L "skip"
    | Some ex =>
      match read_sql sql with
      | None => L "FAIL the output does not read as one [WITH ...] SELECT ...; statement of the dialect"
      | Some got =>
        if str_eqb (show_stmt got) (show_stmt ex) then L "ok"
        else L "FAIL the output reads as " ++ show_stmt got ++ L " but the program denotes " ++ show_stmt ex
      end
    end
  | _ => L "skip"
  end.
