(** * Rules: the documented rules a program must obey to compile (specification, written from
    the property text and the README, independently of the writer). *)
From PQL Require Export Model.Ast.
From Coq Require Import String.
Local Open Scope list_scope.
Local Notation length := List.length (only parsing).

Inductive rmode := RDefault | RJoin | RLet.

Definition r_names1 : list str := [L "not"; L "isnull"; L "isnotnull"; L "tolower"; L "toupper"; L "countif"].
Definition r_names0 : list str := [L "now"; L "count"].
Definition r_names3 : list str := [L "iff"; L "iif"].
Definition r_strcat : str := L "strcat".
Definition r_consts : list str := [L "true"; L "false"; L "null"].
Definition r_left : str := L "$left".
Definition r_right : str := L "$right".

Definition mem (n : str) (l : list str) : bool := existsb (str_eqb n) l.

(** built-in called with the documented number of arguments *)
Definition arity_rule_ok (f : str) (n : nat) : bool :=
  if mem f r_names1 then Nat.eqb n 1
  else if mem f r_names0 then Nat.eqb n 0
  else if mem f r_names3 then Nat.eqb n 3
  else if str_eqb f r_strcat then Nat.leb 1 n
  else true.

Definition is_side_alias (p : ident) : bool :=
  negb (iquoted p) && (str_eqb (iname p) r_left || str_eqb (iname p) r_right).

Section Rules.
Variable bound : str -> bool.    (* parameters and earlier let bindings *)

(** an expression obeys the rules in a given position *)
Fixpoint expr_rules (m : rmode) (e : expr) {struct e} : bool :=
  match e with
  | EParen _ x _ => expr_rules m x
  | EQual [p] =>
    if negb (iquoted p) && (bound (iname p) || mem (iname p) r_consts) then true
    else match m with
         | RLet => false                                   (* anything but bindings and constants *)
         | RJoin => true
         | RDefault => negb (is_side_alias p)              (* $left / $right outside a join condition *)
         end
  | EQual ps =>
    match m with
    | RLet => false
    | RJoin => true
    | RDefault => forallb (fun p => negb (is_side_alias p)) ps
    end
  | ELit _ _ _ => true
  | EUnary _ _ x => expr_rules m x
  | EBin x _ _ y => expr_rules m x && expr_rules m y
  | EIn x _ _ vs _ => expr_rules m x && forallb (expr_rules m) vs
  | EIndex x _ i _ => expr_rules m x && expr_rules m i
  | ECall f _ args _ => arity_rule_ok (iname f) (length args) && forallb (expr_rules m) args
  end.

(** a join condition: a bare column name, or an expression in join position *)
Definition is_bare_name (e : expr) : bool :=
  match e with
  | EQual [p] => negb (iquoted p) && negb (mem (iname p) r_consts) && negb (bound (iname p))
  | _ => false
  end.
Definition cond_rules (e : expr) : bool := is_bare_name e || expr_rules RJoin e.

(** ** operators: every expression an operator carries obeys the rules of its position; a join has
    a known kind and its conditions obey the join-condition rules, at any nesting depth *)
Definition term_rules (t : sort_term) : bool := expr_rules RDefault (st_x t).
Definition col_rules (c : ext_col) : bool := expr_rules RDefault (ec_x c).
Definition proj_rules (c : proj_col) : bool :=
  match pc_x c with Some x => expr_rules RDefault x | None => expr_rules RDefault (EQual [pc_name c]) end.
Definition join_kinds : list str := [L "inner"; L "innerunique"; L "leftouter"].
Definition join_kind_ok (fl : option ident) : bool :=
  match fl with None => true | Some f => mem (iname f) join_kinds end.

Fixpoint op_rules (o : operator) : bool :=
  match o with
  | OCount _ _ | OAs _ _ _ | ORender _ _ _ _ _ _ _ => true
  | OWhere _ _ x => expr_rules RDefault x
  | OSort _ _ ts => forallb term_rules ts
  | OTake _ _ n => expr_rules RDefault n
  | OTop _ _ n _ c => expr_rules RDefault n && term_rules c
  | OProject _ _ cols => forallb proj_rules cols
  | OExtend _ _ cols => forallb col_rules cols
  | OSummarize _ _ cols _ gs => forallb col_rules cols && forallb col_rules gs
  | OJoin _ _ _ _ fl _ _ rops _ _ conds => join_kind_ok fl && forallb op_rules rops && forallb cond_rules conds
  end.

End Rules.

(** ** the statement list: lets before the query are closed constant expressions, evaluated in
    the scope of the parameters and the lets before them; exactly one tabular statement; lets
    after it are ignored *)
Fixpoint stmts_rules (bound : str -> bool) (seen : bool) (ss : list stmt) : bool :=
  match ss with
  | [] => true
  | STab _ :: r => negb seen && stmts_rules bound true r
  | SLet _ name _ x :: r =>
    if seen then stmts_rules bound seen r
    else expr_rules bound RLet x && stmts_rules (fun n => str_eqb (iname name) n || bound n) false r
  end.

(** ** whole programs: the lets before the query as above, exactly one tabular statement, and every
    operator of it (at any depth) obeys the rules in the scope of the parameters and those lets *)
Fixpoint prog_rules (bound : str -> bool) (q : option tabular) (ss : list stmt) : bool :=
  match ss with
  | [] => match q with Some t => forallb (op_rules bound) (tops t) | None => false end
  | STab t :: r => match q with Some _ => false | None => prog_rules bound (Some t) r end
  | SLet _ name _ x :: r =>
    match q with
    | Some _ => prog_rules bound q r
    | None => expr_rules bound RLet x && prog_rules (fun n => str_eqb (iname name) n || bound n) None r
    end
  end.
