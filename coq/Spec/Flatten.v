(** * Flatten: which token sequences a syntax tree represents (specification for C08/C10).
    [toks_X tree tokens]: [tokens] is the source's token sequence for [tree], every position the
    tree records being the span of the corresponding token.  The only freedom: one extra comma
    directly before the ')' of a call with arguments, and directly before `by` in summarize. *)
From PQL Require Export Model.Parser.
From Coq Require Import String.
Local Open Scope list_scope.
Local Notation length := List.length (only parsing).

Definition is_tok (k : kind) (sp : span) (t : token) : Prop := tkind t = k /\ tok_span t = sp.
Definition is_word_tok (w : str) (sp : span) (t : token) : Prop := tkind t = KIdentifier /\ tvalue t = w /\ tok_span t = sp.

Definition ident_tok (i : ident) (t : token) : Prop :=
  tkind t = (if iquoted i then KQuotedIdentifier else KIdentifier) /\ tvalue t = iname i /\ tok_span t = ispan i.

Inductive toks_qual : list ident -> list token -> Prop :=
| tq_one i t : ident_tok i t -> toks_qual [i] [t]
| tq_more i t d r tr : ident_tok i t -> tkind d = KDot -> toks_qual r tr -> toks_qual (i :: r) (t :: d :: tr).

Inductive toks_expr : expr -> list token -> Prop :=
| te_qual ps ts : toks_qual ps ts -> toks_expr (EQual ps) ts
| te_lit sp k v t : (k = KNumber \/ k = KString) -> tkind t = k -> tvalue t = v -> tok_span t = sp -> toks_expr (ELit sp k v) [t]
| te_unary sp op x t tx : (op = KPlus \/ op = KMinus) -> is_tok op sp t -> toks_expr x tx -> toks_expr (EUnary sp op x) (t :: tx)
| te_bin x sp op y tx t ty : (0 <= op_prec op)%Z -> op <> KIn -> toks_expr x tx -> is_tok op sp t -> toks_expr y ty ->
    toks_expr (EBin x sp op y) (tx ++ t :: ty)
| te_in x isp lsp vs rsp tx ti tl tvs tr : toks_expr x tx -> is_tok KIn isp ti -> is_tok KLParen lsp tl ->
    toks_list vs tvs -> vs <> [] -> is_tok KRParen rsp tr ->
    toks_expr (EIn x isp lsp vs rsp) (tx ++ ti :: tl :: tvs ++ [tr])
| te_paren lsp x rsp tl tx tr : is_tok KLParen lsp tl -> toks_expr x tx -> is_tok KRParen rsp tr ->
    toks_expr (EParen lsp x rsp) (tl :: tx ++ [tr])
| te_call f lsp args rsp tf tl targs tr : ident_tok f tf -> iquoted f = false -> is_tok KLParen lsp tl ->
    toks_args args targs -> is_tok KRParen rsp tr ->
    toks_expr (ECall f lsp args rsp) (tf :: tl :: targs ++ [tr])
| te_index x lsp i rsp tx tl ti tr : toks_expr x tx -> is_tok KLBracket lsp tl -> toks_expr i ti -> is_tok KRBracket rsp tr ->
    toks_expr (EIndex x lsp i rsp) (tx ++ tl :: ti ++ [tr])

(** a non-empty comma-separated list *)
with toks_list : list expr -> list token -> Prop :=
| tl_one e te : toks_expr e te -> toks_list [e] te
| tl_more e te c r tr : toks_expr e te -> tkind c = KComma -> toks_list r tr -> r <> [] -> toks_list (e :: r) (te ++ c :: tr)

(** call arguments: nothing, or a list optionally followed by one comma *)
with toks_args : list expr -> list token -> Prop :=
| ta_none : toks_args [] []
| ta_list args ts : toks_list args ts -> args <> [] -> toks_args args ts
| ta_trailing args ts c : toks_list args ts -> args <> [] -> tkind c = KComma -> toks_args args (ts ++ [c]).
