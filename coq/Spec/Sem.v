(** * Sem: values, rows, tables and SQL expression / SELECT semantics, as a written
    specification of the target dialect (trusted base).  Scalar functions, arithmetic,
    ordering and aggregates that pql passes through by name are taken from an [fenv], so
    every theorem holds for every interpretation of them. *)
From PQL Require Export Model.Base.
From Coq Require Import String.
Local Open Scope list_scope.
Local Notation length := List.length (only parsing).

Inductive value := VNull | VBool (b : bool) | VInt (z : Z) | VStr (s : str).

Definition value_eqb (a b : value) : bool :=
  match a, b with
  | VNull, VNull => true
  | VBool x, VBool y => Bool.eqb x y
  | VInt x, VInt y => Z.eqb x y
  | VStr x, VStr y => str_eqb x y
  | _, _ => false
  end.

(** a row is an ordered list of named columns; a table an ordered list of rows *)
Definition row := list (str * value).
Definition table := list row.
Definition database := list (str * table).

Fixpoint lookup {A} (l : list (str * A)) (n : str) : option A :=
  match l with
  | [] => None
  | (k, v) :: r => if str_eqb k n then Some v else lookup r n
  end.

Record fenv := mkFenv
  { fn : str -> list value -> value;          (* scalar functions and operators, by name *)
    agg : str -> list (list value) -> value;  (* aggregates: one argument list per row of the group *)
    is_agg : str -> bool;
    vleb : value -> value -> bool;            (* a total preorder on non-null values, for ORDER BY *)
    bound : str -> value }.                   (* value of a substituted parameter / let binding *)

(** evaluation environment: the current row and, inside a join condition, the two sides *)
Record env := mkEnv { e_row : row; e_left : row; e_right : row; e_group : list row }.
Definition row_env (r : row) : env := mkEnv r [] [] [r].

(** ** SQL expressions *)
Inductive sexpr :=
| XCol (parts : list str)
| XBound (n : str)                  (* the text substituted for a parameter or let binding *)
| XWord (w : str)                   (* TRUE FALSE NULL CURRENT_TIMESTAMP ... *)
| XNum (s : str)
| XStr (s : str)
| XUn (op : str) (x : sexpr)        (* - + *)
| XNot (x : sexpr)
| XBin (op : str) (x y : sexpr)     (* AND OR = <> < <= > >= + - * / % || *)
| XIsNull (negated : bool) (x : sexpr)
| XIn (x : sexpr) (vals : list sexpr)
| XIndex (x i : sexpr)
| XCall (f : str) (args : list sexpr)
| XCountIf (c : sexpr)              (* count() FILTER (WHERE c) *)
| XCase (c t e : sexpr).            (* CASE WHEN c THEN t ELSE e END *)

Definition w_TRUE : str := Eval vm_compute in L "TRUE".
Definition w_FALSE : str := Eval vm_compute in L "FALSE".
Definition w_NULL : str := Eval vm_compute in L "NULL".
Definition w_AND : str := Eval vm_compute in L "AND".
Definition w_OR : str := Eval vm_compute in L "OR".
Definition w_eq : str := Eval vm_compute in L "=".
Definition w_ne : str := Eval vm_compute in L "<>".
Definition w_coalesce : str := Eval vm_compute in L "coalesce".
Definition w_count : str := Eval vm_compute in L "count".
Definition w_sleft : str := Eval vm_compute in L "$left".
Definition w_sright : str := Eval vm_compute in L "$right".

(** Kleene connectives *)
Definition v_and (a b : value) : value :=
  match a, b with
  | VBool false, _ | _, VBool false => VBool false
  | VBool true, VBool true => VBool true
  | _, _ => VNull
  end.
Definition v_or (a b : value) : value :=
  match a, b with
  | VBool true, _ | _, VBool true => VBool true
  | VBool false, VBool false => VBool false
  | _, _ => VNull
  end.
Definition v_not (a : value) : value := match a with VBool b => VBool (negb b) | _ => VNull end.
(** SQL equality: NULL if either side is NULL *)
Definition v_eq (a b : value) : value :=
  match a, b with VNull, _ | _, VNull => VNull | _, _ => VBool (value_eqb a b) end.
Definition v_coalesce (a b : value) : value := match a with VNull => b | _ => a end.
Definition is_true (v : value) : bool := match v with VBool true => true | _ => false end.

(** x IN (v1..vn) = x = v1 OR ... OR x = vn *)
Definition v_in (x : value) (vs : list value) : value :=
  fold_left (fun acc v => v_or acc (v_eq x v)) vs (VBool false).

Fixpoint join_dot (ps : list str) : str :=
  match ps with [] => [] | [p] => p | p :: r => p ++ [46%N] ++ join_dot r end.

Definition col_value (e : env) (parts : list str) : value :=
  match parts with
  | [c] => match lookup (e_row e) c with Some v => v | None => VNull end
  | [q; c] =>
    if str_eqb q w_sleft then match lookup (e_left e) c with Some v => v | None => VNull end
    else if str_eqb q w_sright then match lookup (e_right e) c with Some v => v | None => VNull end
    else match lookup (e_row e) (join_dot parts) with Some v => v | None => VNull end
  | _ => match lookup (e_row e) (join_dot parts) with Some v => v | None => VNull end
  end.

Section Eval.
Variable F : fenv.

Fixpoint seval (e : env) (x : sexpr) {struct x} : value :=
  match x with
  | XCol ps => col_value e ps
  | XBound n => bound F n
  | XWord w => if str_eqb w w_TRUE then VBool true else if str_eqb w w_FALSE then VBool false
               else if str_eqb w w_NULL then VNull else fn F w []
  | XNum s => fn F (L "number") [VStr s]
  | XStr s => VStr s
  | XUn op a => fn F (L "unary" ++ op) [seval e a]
  | XNot a => v_not (seval e a)
  | XBin op a b =>
    let va := seval e a in let vb := seval e b in
    if str_eqb op w_AND then v_and va vb
    else if str_eqb op w_OR then v_or va vb
    else if str_eqb op w_eq then v_eq va vb
    else if str_eqb op w_ne then v_not (v_eq va vb)
    else fn F op [va; vb]
  | XIsNull neg a =>
    let isn := match seval e a with VNull => true | _ => false end in VBool (if neg then negb isn else isn)
  | XIn a vs => v_in (seval e a) (map (seval e) vs)
  | XIndex a i => fn F (L "index") [seval e a; seval e i]
  | XCall f args =>
    if is_agg F f then agg F f (map (fun r => map (seval (mkEnv r (e_left e) (e_right e) [r])) args) (e_group e))
    else if str_eqb f w_coalesce then
      match args with [a; b] => v_coalesce (seval e a) (seval e b) | _ => VNull end
    else fn F f (map (seval e) args)
  | XCountIf c =>
    VInt (Z.of_nat (length (filter (fun r => is_true (seval (mkEnv r (e_left e) (e_right e) [r]) c)) (e_group e))))
  | XCase c t f => if is_true (seval e c) then seval e t else seval e f
  end.

(** does the expression contain an aggregate (so that a SELECT without GROUP BY is one group)? *)
Fixpoint has_agg (x : sexpr) : bool :=
  match x with
  | XCall f args => is_agg F f || existsb has_agg args
  | XCountIf _ => true
  | XUn _ a | XNot a | XIsNull _ a => has_agg a
  | XBin _ a b | XIndex a b => has_agg a || has_agg b
  | XIn a vs => has_agg a || existsb has_agg vs
  | XCase c t f => has_agg c || has_agg t || has_agg f
  | _ => false
  end.

(** ** SELECT *)
Inductive scol := CStar | CExpr (e : sexpr) (alias : str).
Record sorder := mkOrder { o_key : sexpr; o_asc : bool; o_nulls_first : bool }.
Inductive sfrom :=
| FName (n : str)
| FJoin (distinct_left : bool) (left : str) (outer : bool) (right : str) (on : sexpr).
Record sselect := mkSelect
  { s_cols : list scol; s_from : sfrom; s_where : option sexpr; s_group : list sexpr;
    s_order : list sorder; s_limit : option sexpr }.
Record sstmt := mkStmt { st_ctes : list (str * sselect); st_main : sselect }.

Definition row_eqb (a b : row) : bool :=
  Nat.eqb (length a) (length b) &&
  forallb (fun p => str_eqb (fst (fst p)) (fst (snd p)) && value_eqb (snd (fst p)) (snd (snd p))) (combine a b).

Fixpoint dedup (t : table) : table :=
  match t with
  | [] => []
  | r :: rest => r :: filter (fun x => negb (row_eqb r x)) (dedup rest)
  end.

Definition null_row (like : table) : row :=
  match like with r :: _ => map (fun kv => (fst kv, VNull)) r | [] => [] end.

(** join of two tables under a condition over ($left, $right) *)
Definition join_tables (distinct_left outer : bool) (l r : table) (on : sexpr) : table :=
  let l' := if distinct_left then dedup l else l in
  flat_map (fun lr =>
    let ms := filter (fun rr => is_true (seval (mkEnv (lr ++ rr) lr rr [lr ++ rr]) on)) r in
    match ms with
    | [] => if outer then [lr ++ null_row r] else []
    | _ => map (fun rr => lr ++ rr) ms
    end) l'.

Definition eval_from (db : database) (f : sfrom) : option table :=
  match f with
  | FName n => lookup db n
  | FJoin d l o r on =>
    match lookup db l, lookup db r with
    | Some lt, Some rt => Some (join_tables d o lt rt on)
    | _, _ => None
    end
  end.

(** grouping: rows with equal key values, in order of first occurrence *)
Definition values_eqb (a b : list value) : bool :=
  Nat.eqb (length a) (length b) && forallb (fun p => value_eqb (fst p) (snd p)) (combine a b).

Fixpoint add_to_groups (k : list value) (r : row) (gs : list (list value * list row)) : list (list value * list row) :=
  match gs with
  | [] => [(k, [r])]
  | (k', rs) :: rest => if values_eqb k' k then (k', rs ++ [r]) :: rest else (k', rs) :: add_to_groups k r rest
  end.
Definition group_by (key : row -> list value) (t : table) : list (list row) :=
  map snd (fold_left (fun gs r => add_to_groups (key r) r gs) t []).

(** stable insertion sort by a "less or equal" test *)
Fixpoint insert_by (le : row -> row -> bool) (x : row) (l : table) : table :=
  match l with
  | [] => [x]
  | y :: r => if le x y then x :: l else y :: insert_by le x r
  end.
Definition sort_by (le : row -> row -> bool) (t : table) : table :=
  fold_right (fun x acc => insert_by le x acc) [] t.

(** compare two rows on one key: -1, 0, +1 with NULL placement *)
Definition cmp_key (asc nulls_first : bool) (a b : value) : comparison :=
  match a, b with
  | VNull, VNull => Eq
  | VNull, _ => if nulls_first then Lt else Gt
  | _, VNull => if nulls_first then Gt else Lt
  | _, _ =>
    if vleb F a b && vleb F b a then Eq
    else if vleb F a b then (if asc then Lt else Gt) else (if asc then Gt else Lt)
  end.

Fixpoint cmp_keys (ks : list (bool * bool * value * value)) : comparison :=
  match ks with
  | [] => Eq
  | (asc, nf, a, b) :: r => match cmp_key asc nf a b with Eq => cmp_keys r | c => c end
  end.

End Eval.
