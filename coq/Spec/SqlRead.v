(** * SqlRead: the statement structure of emitted SQL, read from text (reference reader) and
    computed from the PQL tree (what the program denotes), to be compared by the oracle. *)
From PQL Require Export Spec.SqlParse Model.Trans.
From Coq Require Import String.
Local Open Scope list_scope.
Local Notation length := List.length (only parsing).
Local Open Scope nat_scope.

Inductive rcol := RStar | RExpr (e : sexpr) (alias : option str).
Inductive rfrom := RTable (n : str) | RJoin (unique : bool) (l : str) (outer : bool) (r : str) (cond : sexpr).
Record rsel := mkSel
  { r_cols : list rcol; r_from : rfrom; r_where : option sexpr; r_group : list sexpr;
    r_order : list (sexpr * bool * bool); r_limit : option sexpr }.
Definition rstmt : Type := list (str * rsel) * rsel.

(** ** reading *)
Definition is_kw (w : str) (t : stok) : bool :=
  match t with SWord x => str_eqb (map upper_c x) w | _ => false end.

Definition k_SELECT := Eval vm_compute in L "SELECT".
Definition k_DISTINCT := Eval vm_compute in L "DISTINCT".
Definition k_FROM := Eval vm_compute in L "FROM".
Definition k_AS := Eval vm_compute in L "AS".
Definition k_LEFT := Eval vm_compute in L "LEFT".
Definition k_JOIN := Eval vm_compute in L "JOIN".
Definition k_ON := Eval vm_compute in L "ON".
Definition k_GROUP := Eval vm_compute in L "GROUP".
Definition k_ORDER := Eval vm_compute in L "ORDER".
Definition k_BY := Eval vm_compute in L "BY".
Definition k_LIMIT := Eval vm_compute in L "LIMIT".
Definition k_ASC := Eval vm_compute in L "ASC".
Definition k_DESC := Eval vm_compute in L "DESC".
Definition k_NULLS := Eval vm_compute in L "NULLS".
Definition k_FIRST := Eval vm_compute in L "FIRST".
Definition k_LAST := Eval vm_compute in L "LAST".
Definition k_WITH := Eval vm_compute in L "WITH".
Definition q_left := Eval vm_compute in L "$left".
Definition q_right := Eval vm_compute in L "$right".

(** expressions are read with the fuel [fx] (any fuel above the expression's depth gives the same result) *)
Definition rx (fx : nat) (ts : list stok) : option (sexpr * list stok) := sx fx 0 ts.

(** select-list: `*` or `e [AS "alias"]`, comma separated, up to FROM *)
Fixpoint read_cols (fx : nat) (n : nat) (ts : list stok) : option (list rcol * list stok) :=
  match n with
  | O => None
  | S n' =>
    let after (c : rcol) (r : list stok) :=
      match r with
      | t :: r' =>
        if is_p p_comma t then
          match read_cols fx n' r' with Some (cs, r'') => Some (c :: cs, r'') | None => None end
        else Some ([c], r)
      | [] => Some ([c], [])
      end in
    match ts with
    | t :: r =>
      if is_p p_star t then after RStar r
      else
        match rx fx ts with
        | Some (e, a :: SQuoted al :: r') => if is_kw k_AS a then after (RExpr e (Some al)) r' else after (RExpr e None) (a :: SQuoted al :: r')
        | Some (e, r') => after (RExpr e None) r'
        | None => None
        end
    | [] => None
    end
  end.

Definition read_from (fx : nat) (ts : list stok) : option (rfrom * list stok) :=
  (* the left side: "name" or (SELECT DISTINCT * FROM "name") *)
  let left :=
    match ts with
    | SQuoted n :: r => Some (false, n, r)
    | lp :: s :: d :: st :: f :: SQuoted n :: rp :: r =>
      if is_p p_lp lp && is_kw k_SELECT s && is_kw k_DISTINCT d && is_p p_star st && is_kw k_FROM f && is_p p_rp rp
      then Some (true, n, r) else None
    | _ => None
    end in
  match left with
  | Some (uniq, n, a :: SQuoted l :: r) =>
    if is_kw k_AS a && str_eqb l q_left then
      let '(outer, r1) := match r with t :: r' => if is_kw k_LEFT t then (true, r') else (false, r) | [] => (false, r) end in
      match r1 with
      | j :: SQuoted rn :: a2 :: SQuoted rr :: o :: r2 =>
        if is_kw k_JOIN j && is_kw k_AS a2 && str_eqb rr q_right && is_kw k_ON o then
          match rx fx r2 with
          | Some (c, r3) => Some (RJoin uniq n outer rn c, r3)
          | None => None
          end
        else None
      | _ => None
      end
    else if uniq then None else Some (RTable n, a :: SQuoted l :: r)
  | Some (false, n, r) => Some (RTable n, r)
  | _ => None
  end.

Fixpoint read_exprs (fx : nat) (n : nat) (ts : list stok) : option (list sexpr * list stok) :=
  match n with
  | O => None
  | S n' =>
    match rx fx ts with
    | Some (e, t :: r) =>
      if is_p p_comma t then match read_exprs fx n' r with Some (es, r') => Some (e :: es, r') | None => None end
      else Some ([e], t :: r)
    | Some (e, []) => Some ([e], [])
    | None => None
    end
  end.

(** ORDER BY terms: e [ASC|DESC] [NULLS FIRST|LAST]; the dialect's defaults are ASC, NULLS LAST *)
Fixpoint read_terms (fx : nat) (n : nat) (ts : list stok) : option (list (sexpr * bool * bool) * list stok) :=
  match n with
  | O => None
  | S n' =>
    match rx fx ts with
    | Some (e, r) =>
      let '(asc, r1) := match r with t :: r' => if is_kw k_ASC t then (true, r') else if is_kw k_DESC t then (false, r') else (true, r) | [] => (true, r) end in
      let '(nf, r2) :=
        match r1 with
        | t :: t2 :: r' => if is_kw k_NULLS t then (if is_kw k_FIRST t2 then (Some true, r') else if is_kw k_LAST t2 then (Some false, r') else (None, r1)) else (Some false, r1)
        | _ => (Some false, r1)
        end in
      match nf with
      | None => None
      | Some nf =>
        match r2 with
        | t :: r' =>
          if is_p p_comma t then match read_terms fx n' r' with Some (tl, r'') => Some ((e, asc, nf) :: tl, r'') | None => None end
          else Some ([(e, asc, nf)], r2)
        | [] => Some ([(e, asc, nf)], [])
        end
      end
    | None => None
    end
  end.

Definition read_select (fx : nat) (ts : list stok) : option (rsel * list stok) :=
  match ts with
  | s :: r =>
    if is_kw k_SELECT s then
      match read_cols fx (S (length r)) r with
      | Some (cols, f :: r1) =>
        if is_kw k_FROM f then
          match read_from fx r1 with
          | Some (from, r2) =>
            let wh := match r2 with
                      | t :: r' => if is_kw k_WHERE t then match rx fx r' with Some (e, r'') => Some (Some e, r'') | None => None end else Some (None, r2)
                      | [] => Some (None, r2) end in
            match wh with
            | Some (w, r3) =>
              let gb := match r3 with
                        | t :: b :: r' => if is_kw k_GROUP t && is_kw k_BY b then read_exprs fx (S (length r')) r' else Some ([], r3)
                        | _ => Some ([], r3) end in
              match gb with
              | Some (g, r4) =>
                let ob := match r4 with
                          | t :: b :: r' => if is_kw k_ORDER t && is_kw k_BY b then read_terms fx (S (length r')) r' else Some ([], r4)
                          | _ => Some ([], r4) end in
                match ob with
                | Some (o, r5) =>
                  let lm := match r5 with
                            | t :: r' => if is_kw k_LIMIT t then match rx fx r' with Some (e, r'') => Some (Some e, r'') | None => None end else Some (None, r5)
                            | [] => Some (None, r5) end in
                  match lm with
                  | Some (l, r6) => Some (mkSel cols from w g o l, r6)
                  | None => None
                  end
                | None => None
                end
              | None => None
              end
            | None => None
            end
          | None => None
          end
        else None
      | _ => None
      end
    else None
  | [] => None
  end.

(** "name" AS ( select ) [, ...] *)
Fixpoint read_ctes (fx : nat) (n : nat) (ts : list stok) : option (list (str * rsel) * list stok) :=
  match n with
  | O => None
  | S n' =>
    match ts with
    | SQuoted name :: a :: lp :: r =>
      if is_kw k_AS a && is_p p_lp lp then
        match read_select fx r with
        | Some (s, rp :: r1) =>
          if is_p p_rp rp then
            match r1 with
            | c :: r2 =>
              if is_p p_comma c then match read_ctes fx n' r2 with Some (tl, r3) => Some ((name, s) :: tl, r3) | None => None end
              else Some ([(name, s)], r1)
            | [] => Some ([(name, s)], [])
            end
          else None
        | _ => None
        end
      else None
    | _ => None
    end
  end.

(** one statement, ended by exactly one semicolon *)
Definition read_stmt (fx : nat) (ts : list stok) : option rstmt :=
  let '(ctes, r) :=
    match ts with
    | w :: r' => if is_kw k_WITH w then match read_ctes fx (S (length r')) r' with Some (c, r'') => (Some c, r'') | None => (None, r') end else (Some [], ts)
    | [] => (Some [], ts)
    end in
  match ctes with
  | Some cs =>
    match read_select fx r with
    | Some (s, [semi]) => if is_p p_semi semi then Some (cs, s) else None
    | _ => None
    end
  | None => None
  end.

Definition read_sql (s : str) : option rstmt :=
  match sql_lex ClickHouse s with
  | Some ts => read_stmt (sql_fuel ts) ts
  | None => None
  end.
