(** * The number a numeric spelling denotes (specification; C04, C09).
    A decimal spelling is  I [. F] [(e|E) [+|-] X]  with I, F, X runs of decimal digits; it denotes
    (I F read as one decimal integer) * 10 ^ (X - number of digits of F).  A hexadecimal spelling
    0x H / 0X H denotes H read in base sixteen.  The SQL dialect reads its (decimal) number tokens
    the same way, so [num_parts] is also the value of an SQL number token. *)
From PQL Require Import Model.Lexer.
From Coq Require Import QArith.
Local Open Scope list_scope.

Definition digits_of (s : str) : str := take_while is_digit s.
Definition after_digits (s : str) : str := skipn (List.length (digits_of s)) s.

(** mantissa, number of fraction digits, exponent *)
Definition num_parts (s : str) : N * nat * Z :=
  let ip := digits_of s in
  let r1 := after_digits s in
  let '(fp, r2) := match r1 with
                   | c :: t => if (c =? 46)%N then (digits_of t, after_digits t) else ([], r1)
                   | [] => ([], [])
                   end in
  let ex := match r2 with
            | e :: sg :: t =>
              if ((e =? 101) || (e =? 69))%N then
                if (sg =? 45)%N then (- Z.of_N (dec_value (digits_of t)))%Z
                else if (sg =? 43)%N then Z.of_N (dec_value (digits_of t))
                else Z.of_N (dec_value (digits_of (sg :: t)))
              else 0%Z
            | _ => 0%Z
            end in
  (dec_value (ip ++ fp), List.length fp, ex).

Definition parts_q (p : N * nat * Z) : Q :=
  let '(m, fl, ex) := p in (inject_Z (Z.of_N m) * (10 # 1) ^ (ex - Z.of_nat fl))%Q.

(** value of a decimal spelling (PQL decimal literal, SQL number token) *)
Definition num_q (s : str) : Q := parts_q (num_parts s).

(** value of a PQL number literal as written in the source: hexadecimal or decimal *)
Definition src_num_parts (t : str) : N * nat * Z :=
  match t with
  | z :: x :: ds => if ((z =? 48) && ((x =? 120) || (x =? 88)))%N then (hex_value ds, 0%nat, 0%Z) else num_parts t
  | _ => num_parts t
  end.
Definition src_num_q (t : str) : Q := parts_q (src_num_parts t).
