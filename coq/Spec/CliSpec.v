(** * CliSpec: what the command-line tool must print for a script, stated in one shot
    (specification): cut the whole script at its semicolon tokens; every piece but the last is a
    terminated statement, handled in order with the accumulated let prelude; the last piece is
    compiled as a query under the prelude if it has any token. *)
From PQL Require Export Model.Cli.
Local Open Scope list_scope.

Definition set_pending (st : cli_state) (p : str) : cli_state :=
  mkCli p (prelude st) (failed st) (out st) (nlogged st).

Definition state_of_text (script : str) : cli_state :=
  let pieces := split_statements script in
  set_pending (fold_left do_piece (removelast pieces) cli_init) (last pieces []).

Definition expected (script : str) : cli_out := finish (state_of_text script) false.

(** the text the tool has read after a list of lines: each line followed by a newline *)
Definition text_of (lines : list str) : str := concat (map (fun l => l ++ [10%N]) lines).
