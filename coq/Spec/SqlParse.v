(** * SqlParse: a reference reader for the SQL the compiler emits (specification side).
    Reads SQL text (through [sql_lex], ClickHouse rules) back into the expression trees of
    Spec/Sem.v and into a small statement structure, with the operator precedence of the target
    dialect:   OR < AND < NOT < comparison, IS [NOT] NULL, IN < || < + - < * / % < unary sign < x[i].
    It knows nothing about how the compiler prints: run on the implementation's output it
    decides whether that text re-reads as the tree the PQL program denotes. *)
From PQL Require Export Spec.SqlLex Spec.Sem.
From Coq Require Import String.
Local Open Scope list_scope.
Local Notation length := List.length (only parsing).
Local Open Scope nat_scope.

(** SQL keywords are case-insensitive: [w] is given in upper case *)
Definition upper_c (c : N) : N := if ((97 <=? c) && (c <=? 122))%N then (c - 32)%N else c.
Definition is_w (w : str) (t : stok) : bool := match t with SWord x => str_eqb (map upper_c x) w | _ => false end.
Definition is_p (p : str) (t : stok) : bool := match t with SPunct x => str_eqb x p | _ => false end.

Definition k_OR := Eval vm_compute in L "OR".
Definition k_AND := Eval vm_compute in L "AND".
Definition k_NOT := Eval vm_compute in L "NOT".
Definition k_IS := Eval vm_compute in L "IS".
Definition k_NULL := Eval vm_compute in L "NULL".
Definition k_IN := Eval vm_compute in L "IN".
Definition k_CASE := Eval vm_compute in L "CASE".
Definition k_WHEN := Eval vm_compute in L "WHEN".
Definition k_THEN := Eval vm_compute in L "THEN".
Definition k_ELSE := Eval vm_compute in L "ELSE".
Definition k_END := Eval vm_compute in L "END".
Definition k_FILTER := Eval vm_compute in L "FILTER".
Definition k_WHERE := Eval vm_compute in L "WHERE".
Definition k_count := Eval vm_compute in L "count".
Definition p_lp := Eval vm_compute in L "(".
Definition p_rp := Eval vm_compute in L ")".
Definition p_lb := Eval vm_compute in L "[".
Definition p_rb := Eval vm_compute in L "]".
Definition p_comma := Eval vm_compute in L ",".
Definition p_dot := Eval vm_compute in L ".".
Definition p_star := Eval vm_compute in L "*".
Definition p_minus := Eval vm_compute in L "-".
Definition p_plus := Eval vm_compute in L "+".
Definition p_semi := Eval vm_compute in L ";".

(** binary operators: precedence level (left-associative) *)
Definition bin_level (t : stok) : option (nat * str) :=
  match t with
  | SWord w => if str_eqb (map upper_c w) k_OR then Some (1, k_OR) else if str_eqb (map upper_c w) k_AND then Some (2, k_AND) else None
  | SPunct p =>
    if existsb (str_eqb p) [L "="; L "<>"; L "!="; L "<"; L "<="; L ">"; L ">="] then Some (4, p)
    else if str_eqb p (L "||") then Some (5, p)
    else if existsb (str_eqb p) [L "+"; L "-"] then Some (6, p)
    else if existsb (str_eqb p) [L "*"; L "/"; L "%"] then Some (7, p)
    else None
  | _ => None
  end.

(** "a" . "b" . "c" *)
Fixpoint col_tail (ts : list stok) : list str * list stok :=
  match ts with
  | SPunct d :: SQuoted q :: r => if str_eqb d p_dot then let '(ps, r') := col_tail r in (q :: ps, r') else ([], ts)
  | _ => ([], ts)
  end.

Fixpoint sx (fuel : nat) (minp : nat) (ts : list stok) {struct fuel} : option (sexpr * list stok) :=
  match fuel with
  | O => None
  | S f =>
    match sx_prefix f minp ts with
    | Some (x, r) => sx_loop f minp x r
    | None => None
    end
  end

(** prefix operators and atoms, followed by any number of [..] *)
with sx_prefix (fuel : nat) (minp : nat) (ts : list stok) {struct fuel} : option (sexpr * list stok) :=
  match fuel with
  | O => None
  | S f =>
    match ts with
    | [] => None
    | t :: r =>
      if is_w k_NOT t then
        if Nat.leb minp 3 then match sx f 3 r with Some (x, r') => Some (XNot x, r') | None => None end else None
      else if is_p p_minus t || is_p p_plus t then
        match sx_prefix f 8 r with
        | Some (x, r') => Some (XUn (match t with SPunct p => p | _ => [] end) x, r')
        | None => None
        end
      else
        match sx_atom f ts with
        | Some (x, r') => sx_postfix f x r'
        | None => None
        end
    end
  end

with sx_atom (fuel : nat) (ts : list stok) {struct fuel} : option (sexpr * list stok) :=
  match fuel with
  | O => None
  | S f =>
    match ts with
    | [] => None
    | SNumber n :: r => Some (XNum n, r)
    | SString s :: r => Some (XStr s, r)
    | SParam p :: r => Some (XWord (123%N :: p ++ [125%N]), r)
    | SQuoted q :: r => let '(ps, r') := col_tail r in Some (XCol (q :: ps), r')
    | SPunct p :: r =>
      if str_eqb p p_lp then
        match sx f 0 r with
        | Some (x, c :: r') => if is_p p_rp c then Some (x, r') else None
        | _ => None
        end
      else None
    | SWord w :: r =>
      if str_eqb (map upper_c w) k_CASE then
        match r with
        | wh :: r1 =>
          if is_w k_WHEN wh then
            match sx f 0 r1 with
            | Some (c, th :: r2) =>
              if is_w k_THEN th then
                match sx f 0 r2 with
                | Some (t, el :: r3) =>
                  if is_w k_ELSE el then
                    match sx f 0 r3 with
                    | Some (e, en :: r4) => if is_w k_END en then Some (XCase c t e, r4) else None
                    | _ => None
                    end
                  else None
                | _ => None
                end
              else None
            | _ => None
            end
          else None
        | [] => None
        end
      else
        match r with
        | lp :: r1 =>
          if is_p p_lp lp then
            match r1 with
            | st :: rp :: r2 =>
              if is_p p_star st && is_p p_rp rp then Some (XCall w [XWord p_star], r2)
              else sx_call f w r1
            | _ => sx_call f w r1
            end
          else Some (XWord w, r)
        | [] => Some (XWord w, [])
        end
    end
  end

(** after `name (`: the arguments and `)`; `count() FILTER (WHERE c)` *)
with sx_call (fuel : nat) (w : str) (ts : list stok) {struct fuel} : option (sexpr * list stok) :=
  match fuel with
  | O => None
  | S f =>
    match sx_args f ts with
    | Some (args, r) =>
      match args, r with
      | [], fl :: lp :: wh :: r1 =>
        if str_eqb w k_count && is_w k_FILTER fl && is_p p_lp lp && is_w k_WHERE wh then
          match sx f 0 r1 with
          | Some (c, rp :: r2) => if is_p p_rp rp then Some (XCountIf c, r2) else None
          | _ => None
          end
        else Some (XCall w args, r)
      | _, _ => Some (XCall w args, r)
      end
    | None => None
    end
  end

(** `)` or `e, e, ... )` *)
with sx_args (fuel : nat) (ts : list stok) {struct fuel} : option (list sexpr * list stok) :=
  match fuel with
  | O => None
  | S f =>
    match ts with
    | t :: r =>
      if is_p p_rp t then Some ([], r)
      else
        match sx f 0 ts with
        | Some (x, c :: r') =>
          if is_p p_rp c then Some ([x], r')
          else if is_p p_comma c then
            match sx_args f r' with
            | Some (xs, r'') => match xs with [] => None | _ => Some (x :: xs, r'') end
            | None => None
            end
          else None
        | _ => None
        end
    | [] => None
    end
  end

with sx_postfix (fuel : nat) (x : sexpr) (ts : list stok) {struct fuel} : option (sexpr * list stok) :=
  match fuel with
  | O => None
  | S f =>
    match ts with
    | lb :: r =>
      if is_p p_lb lb then
        match sx f 0 r with
        | Some (i, rb :: r') => if is_p p_rb rb then sx_postfix f (XIndex x i) r' else None
        | _ => None
        end
      else Some (x, ts)
    | [] => Some (x, [])
    end
  end

(** binary operators, IS [NOT] NULL and IN at or above [minp] *)
with sx_loop (fuel : nat) (minp : nat) (x : sexpr) (ts : list stok) {struct fuel} : option (sexpr * list stok) :=
  match fuel with
  | O => None
  | S f =>
    match ts with
    | [] => Some (x, [])
    | t :: r =>
      if is_w k_IS t then
        if Nat.leb minp 4 then
          match r with
          | n1 :: r1 =>
            if is_w k_NULL n1 then sx_loop f minp (XIsNull false x) r1
            else if is_w k_NOT n1 then
              match r1 with
              | n2 :: r2 => if is_w k_NULL n2 then sx_loop f minp (XIsNull true x) r2 else None
              | [] => None
              end
            else None
          | [] => None
          end
        else Some (x, ts)
      else if is_w k_IN t then
        if Nat.leb minp 4 then
          match r with
          | lp :: r1 =>
            if is_p p_lp lp then
              match sx_args f r1 with
              | Some (vs, r2) => match vs with [] => None | _ => sx_loop f minp (XIn x vs) r2 end
              | None => None
              end
            else None
          | [] => None
          end
        else Some (x, ts)
      else
        match bin_level t with
        | Some (lvl, op) =>
          if Nat.leb minp lvl then
            match sx f (S lvl) r with
            | Some (y, r') => sx_loop f minp (XBin op x y) r'
            | None => None
            end
          else Some (x, ts)
        | None => Some (x, ts)
        end
    end
  end.

Definition sql_fuel (ts : list stok) : nat := 8 * length ts + 16.

(** a complete expression *)
Definition read_expr (ts : list stok) : option sexpr :=
  match sx (sql_fuel ts) 0 ts with
  | Some (x, []) => Some x
  | _ => None
  end.

Definition read_expr_text (s : str) : option sexpr :=
  match sql_lex ClickHouse s with
  | Some ts => read_expr ts
  | None => None
  end.
