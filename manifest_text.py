"""Level texts for MANIFEST.json (kept next to props.py; see DESIGN.md section 5)."""
NOT_APPLICABLE = {}
TEXT = {
 "C09": dict(
   text="Theorems over the Gallina lexer model for every byte string: tokens are ordered, non-empty, non-overlapping and inside the source (C09_partition); "
        "each token is exactly the item that starts at its offset (C09_token_is_item_at_offset); every item makes progress and stays in bounds; the scan loop cannot run out of fuel. "
        "Kinds, values, longest match, rescan and numeric accessors are decided by the reference-tokenizer oracle on the implementation and by the byte-exact correspondence of model and implementation (exhaustive over a 32-symbol alphabet to length 3 quick / 4 thorough, random beyond); they are not yet carried by a theorem.",
   note="Partial proof: partition/progress/fuel proved; lexeme-kind, value, rescan and accessor clauses are checked by oracle and correspondence only. Float64 (strconv.ParseFloat rounding) is compared only on exactly representable values. Model tied to lex.go by differential execution; kind numbering and keyword table regenerated from the source."),
 "C15": dict(
   text="Theorems for every byte string: joining the pieces of split_statements with ';' gives back the source (C15_join), there is one more piece than semicolon tokens (C15_count), and a semicolon token is exactly one ';' byte that is its own lexical item (so never inside a string, quoted name or comment). "
        "The piece-alone = piece-in-context clause (locality), 'no piece contains a semicolon token' and the agreement with Parse are decided by the five-equation oracle on the implementation and by correspondence; not yet carried by a theorem.",
   note="Partial proof: join/count/semicolon-byte proved on the model; locality, no-semi and parse-order are oracle + correspondence. Uses the generated keyword table (side condition: no keyword maps to the semicolon kind, decided by vm_compute on every run)."),
 "C01": dict(
   text="Theorems: (meaning) for every expression tree, every row/environment (NULLs, join sides, groups) and every interpretation of the pass-through functions, the SQL tree the writer intends evaluates to the value of the PQL expression read with PQL's own grouping - ==/!= never NULL, =~/!~ through lower(), Kleene and/or, in, indexing, signs, each documented built-in rewritten, everything else passed through by name with its arguments (C01_meaning, by induction on the tree; closed under the global context). "
        "(parentheses) source parentheses are transparent to the writer at every level, so neither termination nor validity depends on them. (tables) PQL precedence is the documented one; every operator the parser can build has a SQL rendering; built-ins have the documented arities; every rewrite whose output is not a single SQL operand is parenthesised when used as an operand. "
        "Not yet a theorem: that the emitted *text*, re-read under SQL precedence, is that intended tree (C01_structure); it is decided by byte-exact correspondence of the writer model with Compile on generated trees, including exhaustive sign/parenthesis/index nestings to depth 4 and all small join conditions.",
   note="Partial proof (meaning proved; text-to-tree re-reading by correspondence). Tables are regenerated from pql.go/parser.go on every run. The SQL expression semantics is a written specification (coq/Spec/Sem.v). Parameter snippets are copied verbatim and are outside the claim."),
 "C02": dict(
   text="Theorem C02_pipeline (all operator sequences of any length without joins, all databases, all interpretations of pass-through functions): whenever applying the operators one after another, left to right, with PQL's reading of the expressions yields a table r, evaluating the subqueries built by splitQueries - each SELECT as source; operator; ORDER BY; LIMIT, later ones seeing earlier ones by name - with the SQL reading of the emitted expressions yields the same r (same columns, names, order; same rows, same order). The proof is an invariant over the split loop and uses the attach conditions regenerated from the source, so dropping one of them breaks it. "
        "Further theorems state those conditions: sort/top share a SELECT only with a query that exists, keeps its names and has neither ORDER BY nor LIMIT; take only if it has no LIMIT; project/summarize/as/render never take one. "
        "Sort-term defaults and the per-operator SELECT text (keys before aggregates etc.) are tied by byte-exact correspondence on all operator sequences up to length 3 (quick) / 4 (thorough).",
   note="Proof on the structured subqueries of the model; the text rendering of each SELECT is tied by correspondence. C02_pipeline uses the standard-library axiom of functional extensionality (named in the evidence); C02_pipeline_generic is axiom-free. Order-preserving subqueries are an assumption about the dialect."),
 "C05": dict(
   text="Theorems: successful output ends with the statement terminator; no operator the parser can build reaches the 'unhandled binary op' fallback (table completeness, re-checked against binaryOps/operatorPrecedence on every run); every join kind the parser admits has a compiler case. "
        "Lexical well-formedness, bracket balance, WITH structure, name resolution/uniqueness/use of CTEs are decided by correspondence only so far.",
   note="Partial proof; the statement grammar of the target dialect is a written specification."),
 "C06": dict(
   text="Theorems on the statement loop of Compile: let statements after the query have no effect (C06_lets_after_query, for any prefix of lets and any suffix of lets); a later binding of a name shadows earlier bindings and parameters. "
        "Denotation at every use site (join conditions, row counts), one-operand hygiene of substituted values and the never-substituted positions are decided by correspondence on let chains x parameter maps x use sites, and by the C13/C14 oracles.",
   note="Partial proof. Parameters are inserted verbatim (caller's responsibility)."),
 "C07": dict(
   text="Theorem: binary operators sit on the documented precedence levels and nothing else is a binary operator (generated table). Grouping, association, `in`, signs, operator arguments/defaults, layout and synonym independence are decided by (i) correspondence of the parser model with Parse on generated programs in random layouts and (ii) an independent reference expression reader plus re-layout metamorphic oracle on the implementation; parser completeness is not yet carried by a theorem.",
   note="Partial proof. Chained indexing a[1][2] is outside the documented grammar (rejected; DESIGN.md D13)."),
 "C08": dict(
   text="Theorems on the mechanism the property names: cutting a token range for a sub-parser never loses or reorders tokens (split, splitSemi); an unconsumed token in a range is an error (endSplit); if a statement's sub-parser stops early Parse fails; recorded errors are never dropped later. "
        "The full statement (accepted => tokens = re-printed tree up to the three allowed omissions) is decided by the token-accounting oracle on the implementation (all single and double token corruptions sampled) and by parse correspondence; not yet carried by a theorem.",
   note="Partial proof; error message texts are not modelled, only positions and the not-found/opaque algebra."),
 "C10": dict(
   text="Theorems on the generated Span tables: every Span method unions all span-bearing fields of its node type, each read with the accessor fitting its type (a field forgotten in a union breaks the proof on the next run). "
        "That recorded spans are lexemes, Span() is first-to-last token, containment/sibling order, and error positions are decided by the span oracle on the implementation and by correspondence of every span and every Span() result (computed in the model from the generated table).",
   note="Partial proof. Spans in partial trees of failed parses are checked on the implementation only."),
 "C11": dict(
   text="Theorems on the Walk table regenerated from ast.go: every node type that can reach the stack has a case (no panic branch; D8 class), all identifier/expression types are reachable, the only unpushed node fields are the documented CallExpr.Func and JoinOperator.Flavor, and optional fields are pushed under a nil guard (D9 class). "
        "Exactly-once / parents-first / pruning for the stack machine are decided by correspondence of the table-driven machine with Walk (all pruning positions sampled) and by a reflection oracle; the generic machine theorem is not yet proved.",
   note="Partial proof over the generated table."),
 "C12": dict(
   text="Theorems: Scan makes progress and cannot exhaust fuel above the input length; SplitStatements' slices are in bounds; Walk has no reachable default (panic) branch; the writer unwraps parentheses structurally (the D1 class cannot recur in the model: wx is a structural Fixpoint). "
        "Parser fuel sufficiency is observed (the model returns FUEL, compared with the implementation on pathological nesting), not proved.",
   note="Partial: wall-clock, stack and heap are observed under a 5 s watchdog. Compile's writer and split are structural recursions in the model (total by construction); the parser model uses fuel 6n+12."),
 "C13": dict(
   text="Theorems: a successful result is never empty; the arity rules are the documented ones (generated). 'Fails exactly when a documented rule is broken' is decided by an independent rules oracle on the implementation over programs with one planted violation at random position/depth, and by status correspondence.",
   note="Partial proof."),
 "C14": dict(
   text="Theorem: the only syntactic write to any package-level variable of pql, parser and cmd/pql is the once-only initialisation of knownFunctions.m (generated from the source on every run). The model's compile is a Gallina function of (parameters, source) and takes the parameter map by value, so determinism, history-freedom and untouched parameters hold of the model by construction; they are tied to the code by a history/concurrency oracle (shared map, nil/zero/empty options, repeated and concurrent calls, -race build).",
   note="Partial: data-race freedom under the Go memory model is observed with the race detector, not proved; sync.Once is trusted."),
 "C16": dict(
   text="Theorems on the line-loop model: a failure is sticky (exit status non-zero whatever follows); a read error gives non-zero status; a failing statement changes neither output nor prelude; an accepted query appends exactly its SQL and a blank line; an accepted let extends the prelude and prints nothing; output is append-only. "
        "Equality with the one-shot specification for every line layout is decided by correspondence with the built binary and by a one-shot oracle using the library's own Compile; not yet carried by a theorem.",
   note="Partial proof; OS I/O, signals, terminal detection outside the model."),
 "C04": dict(
   text="Theorems for every byte string s: quoteIdentifier(s) and quoteSQLString(s) are read back by the target dialect's lexer (ClickHouse rules: doubled quotes and backslash escapes) as exactly one token whose decoded content is s; under standard rules (no backslash escapes) they are still exactly one token (content with doubled backslashes). So no content can close a quote, open a comment or start a clause inside a quoted name or string. "
        "That every name/literal position of every program goes through these two functions (render included), number normalisation preserves the value, and the token structure of whole outputs is payload-independent are decided by byte-exact correspondence on programs whose literal and name contents come from a hostile pool, and by the C09 value oracle; not yet carried by a theorem.",
   note="Partial proof. The dialect's lexical rules are a written specification (coq/Spec/SqlLex.v). Parameter snippets are copied verbatim and are outside the claim."),
 "C03": dict(
   text="Theorem C03_joins (all join kinds, all condition lists, all left prefixes and right-hand pipelines, joins nested to any depth and any number of joins in sequence, all databases, all interpretations of pass-through functions): whenever the left-to-right interpreter - which at a join evaluates the parenthesised right-hand pipeline on its own and joins the table so far with it (default kind de-duplicates the left rows, inner keeps all matching pairs, leftouter also keeps unmatched left rows; a bare name k means $left.k == $right.k; conditions AND-ed) - yields a table r, evaluating the subqueries built by splitQueries yields r. "
        "The proof is an induction over the operator tree with an invariant relating the SQL-side name space to the pipeline's (which subquery each side of a join reads from is exactly what the numbering decides); it uses injectivity of the generated names (proved from the decimal printer). "
        "The text of the join source (DISTINCT wrapper, JOIN / LEFT JOIN, aliases, ON) and the plain-equality special case are tied by byte-exact correspondence on generated join shapes and on all small join conditions.",
   note="Proof on the structured subqueries of the model under the naming condition `ok` (DESIGN.md D14: user names of the generated shape, or an `as` name reused as a table, are outside the theorem); text rendering tied by correspondence. C03_joins uses the standard-library functional-extensionality axiom; C03_joins_generic is axiom-free."),
}
