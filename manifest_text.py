"""Level texts for MANIFEST.json (kept next to props.py; see DESIGN.md section 5)."""
NOT_APPLICABLE = {}
TEXT = {
 "C09": dict(
   text="Theorems over the Gallina lexer model for every byte string: tokens are ordered, non-empty, non-overlapping and inside the source (C09_partition); "
        "each token is exactly the item that starts at its offset (C09_token_is_item_at_offset); every item makes progress and stays in bounds; the scan loop cannot run out of fuel. "
        "Kinds, values, longest match, rescan and numeric accessors are decided by the reference-tokenizer oracle on the implementation and by the byte-exact correspondence of model and implementation (exhaustive over a 32-symbol alphabet to length 3 quick / 4 thorough, random beyond); they are not yet carried by a theorem.",
   note="Partial proof: partition/progress/fuel proved; lexeme-kind, value, rescan and accessor clauses are checked by oracle and correspondence only. Float64 (strconv.ParseFloat rounding) is compared only on exactly representable values. Model tied to lex.go by differential execution; kind numbering and keyword table regenerated from the source."),
 "C15": dict(
   text="Theorems for every byte string: joining the pieces of split_statements with ';' gives back the source (C15_join), there is one more piece than semicolon tokens (C15_count), and a semicolon token is exactly one ';' byte that is its own lexical item (so never inside a string, quoted name or comment). "
        "The piece-alone = piece-in-context clause (locality), 'no piece contains a semicolon token' and the agreement with Parse are decided by the five-equation oracle on the implementation and by correspondence; not yet carried by a theorem.",
   note="Partial proof: join/count/semicolon-byte proved on the model; locality, no-semi and parse-order are oracle + correspondence. Uses the generated keyword table (side condition: no keyword maps to the semicolon kind, decided by vm_compute on every run)."),
}
