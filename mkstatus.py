#!/usr/bin/env python3
"""Regenerates the seeded-changes table of DESIGN.md from seeded/*/meta.json."""
import json, os, glob, re
V = os.path.dirname(os.path.abspath(__file__))
rows = []
for d in sorted(glob.glob(os.path.join(V, "seeded", "*"))):
    mp = os.path.join(d, "meta.json")
    if not os.path.exists(mp):
        continue
    m = json.load(open(mp))
    name = os.path.basename(d)
    det = m.get("detection", {})
    cells = []
    for c, r in sorted(det.items()):
        if r.get("exit") == 1:
            how = "no failing input (broken %s)" % (r.get("replay", {}).get("kind", "proof/correspondence")) if any("no-failing-input-found" in l for l in r.get("violation_lines", [])) else "failing input: " + str(r.get("replay", {}).get("input_text", ""))[:60].replace("\n", "\\n").replace("|", "\\|")
            cells.append("%s ✔ (%s)" % (c, how))
        else:
            cells.append("%s ✘" % c)
    rows.append("| %s | %s | %s | %s |" % (name, m.get("summary", "").replace("|", "\\|")[:150], m.get("needs", "").replace("|", "\\|")[:120], "; ".join(cells)))
tab = ["**Seeded changes** (written by fresh sub-agents from the property text alone, each confirmed in a scratch worktree: clean tree passes the demonstration; patched tree builds, passes the 295 tests, fails the demonstration; kept under `seeded/<id>/`). A ✔ means the named check exits 1 with a VIOLATION line when the patch is applied to /repo.",
       "", "| Change | What was changed | Needs | Caught by |", "|---|---|---|---|"] + rows
p = os.path.join(V, "DESIGN.md")
s = open(p).read()
_new = "<!-- SEEDED-TABLE-BEGIN -->\n" + "\n".join(tab) + "\n<!-- SEEDED-TABLE-END -->"
s = re.sub(r"<!-- SEEDED-TABLE-BEGIN -->.*<!-- SEEDED-TABLE-END -->", lambda m: _new, s, flags=re.S)
open(p, "w").write(s)
print(len(rows), "seeded changes")
