#!/usr/bin/env python3
"""Regenerates the seeded-changes table of DESIGN.md from seeded/*/meta.json."""
import json, os, glob, re
V = os.path.dirname(os.path.abspath(__file__))
rows = []
for d in sorted(glob.glob(os.path.join(V, "seeded", "*"))):
    mp = os.path.join(d, "meta.json")
    if not os.path.exists(mp):
        continue
    m = json.load(open(mp))
    name = os.path.basename(d)
    det = m.get("detection", {})
    cells = []
    for c, r in sorted(det.items()):
        if r.get("exit") == 1:
            how = "no failing input (broken %s)" % (r.get("replay", {}).get("kind", "proof/correspondence")) if any("no-failing-input-found" in l for l in r.get("violation_lines", [])) else "failing input: " + str(r.get("replay", {}).get("input_text", ""))[:60].replace("\n", "\\n").replace("|", "\\|")
            cells.append("%s ✔ (%s)" % (c, how))
        else:
            cells.append("%s ✘" % c)
    rows.append("| %s | %s | %s | %s |" % (name, m.get("summary", "").replace("|", "\\|")[:150], m.get("needs", "").replace("|", "\\|")[:120], "; ".join(cells)))
tab = ["**Seeded changes** (written by fresh sub-agents from the property text alone, each confirmed in a scratch worktree: clean tree passes the demonstration; patched tree builds, passes the 295 tests, fails the demonstration; kept under `seeded/<id>/`). A ✔ means the named check exits 1 with a VIOLATION line when the patch is applied to /repo.",
       "", "| Change | What was changed | Needs | Caught by |", "|---|---|---|---|"] + rows
p = os.path.join(V, "DESIGN.md")
s = open(p).read()
_new = "<!-- SEEDED-TABLE-BEGIN -->\n" + "\n".join(tab) + "\n<!-- SEEDED-TABLE-END -->"
s = re.sub(r"<!-- SEEDED-TABLE-BEGIN -->.*<!-- SEEDED-TABLE-END -->", lambda m: _new, s, flags=re.S)
open(p, "w").write(s)
print(len(rows), "seeded changes")

# ---- harmless rewrites
hrows = []
for d in sorted(glob.glob(os.path.join(V, "harmless", "*"))):
    mp = os.path.join(d, "meta.json")
    if not os.path.exists(mp):
        continue
    m = json.load(open(mp))
    ch = m.get("checks", {})
    bad = ["%s (%s)" % (c, "no failing input" if any("no-failing-input-found" in l for l in r.get("violation_lines", [])) else "failing input reported")
           for c, r in sorted(ch.items()) if r.get("exit") != 0]
    fell = sorted(set(f for r in ch.values() for nline in r.get("notes", []) for f in re.findall(r"coq/Gen/(\w+\.v)", nline)))
    hrows.append("| %s | %s | %s | %s | %s |" % (os.path.basename(d), m.get("summary", "").replace("|", "\\|")[:170], m.get("suite", "?"),
                 ", ".join(fell) if fell else "-", "all %d checks exit 0" % len(ch) if not bad else "ALARM: " + "; ".join(bad)))
htab = ["**Harmless rewrites** (behaviour-preserving changes written by fresh sub-agents and differential-tested by them against the original; kept under `harmless/<name>/`; every check must exit 0 on them).",
        "", "| Rewrite | What was rewritten | 295 tests | Tables the translator refused (fallback to the committed table) | Outcome of the 16 checks |", "|---|---|---|---|---|"] + hrows
s2 = open(p).read()
_newh = "<!-- HARMLESS-TABLE-BEGIN -->\n" + "\n".join(htab) + "\n<!-- HARMLESS-TABLE-END -->"
if "<!-- HARMLESS-TABLE-BEGIN -->" in s2:
    s2 = re.sub(r"<!-- HARMLESS-TABLE-BEGIN -->.*<!-- HARMLESS-TABLE-END -->", lambda m: _newh, s2, flags=re.S)
else:
    s2 = s2.replace("<!-- SEEDED-TABLE-END -->", "<!-- SEEDED-TABLE-END -->\n\n" + _newh)
open(p, "w").write(s2)
print(len(hrows), "harmless rewrites")
