#!/usr/bin/env python3
"""seedtool.py verify <worktree> <outdir>   : confirm a seeded change in a scratch worktree and
                                               store it under /verif/seeded/<name>/
   seedtool.py detect-many <name>...         : each change against its own property's check, one re-setup at the end
   seedtool.py detect <name> [checks...]     : apply /verif/seeded/<name>/patch.diff to /repo, run the
                                               checks, undo; records the outcome in meta.json"""
import json, os, shutil, subprocess, sys
ENV = dict(os.environ, GOFLAGS="-mod=mod", GOPROXY="off", GOSUMDB="off", GOTOOLCHAIN="local")
V = os.environ.get("VERIF_DIR", "/verif")

def sh(cmd, cwd, timeout=900):
    r = subprocess.run(cmd, shell=True, cwd=cwd, env=ENV, capture_output=True, text=True, timeout=timeout)
    return r.returncode, (r.stdout + r.stderr)[-3000:]

def clean(wt):
    sh("git checkout -- . && git clean -fdq -e out", wt)

def verify(wt, out):
    meta = json.load(open(os.path.join(out, "meta.json")))
    name = os.path.basename(out.rstrip("/"))
    demo = "demo_test.go" if os.path.exists(os.path.join(out, "demo_test.go")) else None
    ddir = os.path.join(wt, meta.get("demo_dir", "."))
    run = meta["demo_run"]
    log = {}
    clean(wt)
    if os.path.exists(os.path.join(wt, "out", "go.mod")) is False:
        open(os.path.join(wt, "out", "go.mod"), "w").write("module seededout\n")
    def with_demo(f):
        if demo:
            shutil.copy(os.path.join(out, demo), os.path.join(ddir, "zz_demo_test.go"))
        try:
            return f()
        finally:
            if demo and os.path.exists(os.path.join(ddir, "zz_demo_test.go")):
                os.remove(os.path.join(ddir, "zz_demo_test.go"))
    rc, o = with_demo(lambda: sh(run, wt))
    log["clean_demo"] = rc
    if rc != 0:
        print(name, "REJECT: demo fails on the clean tree\n", o[-800:]); clean(wt); return False
    rc, o = sh("git apply %s" % os.path.join(out, "patch.diff"), wt)
    if rc != 0:
        print(name, "REJECT: patch does not apply\n", o); clean(wt); return False
    rc, o = sh("go build ./... && go test -count=1 . ./cmd/... ./parser/...", wt)
    log["patched_suite"] = rc
    if rc != 0:
        print(name, "REJECT: suite fails with the patch\n", o[-800:]); clean(wt); return False
    rc, o = with_demo(lambda: sh(run, wt))
    log["patched_demo"] = rc
    clean(wt)
    if rc == 0:
        print(name, "REJECT: demo passes with the patch"); return False
    dst = os.path.join(V, "seeded", name)
    os.makedirs(dst, exist_ok=True)
    for f in os.listdir(out):
        shutil.copy(os.path.join(out, f), os.path.join(dst, f))
    meta["confirmed"] = dict(clean_tree_demo="pass", patched_build_and_suite="pass (go build ./... && go test -count=1 . ./cmd/... ./parser/...)",
                             patched_demo="fail (exit %d)" % rc, scratch_worktree=wt)
    json.dump(meta, open(os.path.join(dst, "meta.json"), "w"), indent=1)
    print(name, "CONFIRMED")
    return True

def detect(name, checks, resetup=True):
    dst = os.path.join(V, "seeded", name)
    meta = json.load(open(os.path.join(dst, "meta.json")))
    rc, o = sh("git status --porcelain", "/repo")
    if o.strip():
        print("/repo is not clean"); sys.exit(2)
    rc, o = sh("git apply %s" % os.path.join(dst, "patch.diff"), "/repo")
    if rc != 0:
        print("patch does not apply to /repo:", o); return
    res = {}
    # evidence files describe runs on the unchanged tree: keep them out of harm's way
    saved = {f: open(os.path.join(V, "evidence", f)).read() for f in os.listdir(os.path.join(V, "evidence")) if f.endswith(".json")}
    try:
        for c in checks:
            rc, o = sh("./check %s" % c, V, timeout=1800)
            viol = [l for l in o.split("\n") if l.startswith("VIOLATION")]
            res[c] = dict(exit=rc, violation_lines=viol[:3])
            # keep the first replay for the record
            for l in viol[:1]:
                p = l.split("replay=")[1].split()[0]
                if os.path.exists(p):
                    r = json.load(open(p))
                    res[c]["replay"] = {k: (v if not isinstance(v, str) else v[:300]) for k, v in r.items() if k in ("kind", "oracle", "correspondence", "input_text", "verdict", "what")}
            print(name, c, "exit", rc, viol[:1])
    finally:
        sh("git checkout -- . && git clean -fdq", "/repo")
        for f, s in saved.items():
            open(os.path.join(V, "evidence", f), "w").write(s)
        # the generated tables were made from the patched tree: regenerate them
        if resetup:
            sh("./check --setup", V, timeout=1800)
    det = meta.get("detection", {})
    det.update(res)
    meta["detection"] = det
    json.dump(meta, open(os.path.join(dst, "meta.json"), "w"), indent=1)

if __name__ == "__main__":
    if sys.argv[1] == "verify":
        verify(sys.argv[2], sys.argv[3])
    elif sys.argv[1] == "harmless":
        # harmless NAME SRC_DIR [checks...]: a behaviour-preserving rewrite (patch.diff + meta.json in SRC_DIR) is
        # stored as /verif/harmless/NAME, applied to /repo, the suite and every check run, and undone;
        # every check must exit 0
        name, srcd = sys.argv[2], sys.argv[3]
        checks = sys.argv[4:] or ["C%02d" % i for i in range(1, 17)]
        dst = os.path.join(V, "harmless", name)
        os.makedirs(dst, exist_ok=True)
        for f in ("patch.diff", "meta.json"):
            shutil.copy(os.path.join(srcd, f), os.path.join(dst, f))
        meta = json.load(open(os.path.join(dst, "meta.json")))
        rc, o = sh("git status --porcelain", "/repo")
        if o.strip():
            print("/repo is not clean"); sys.exit(2)
        rc, o = sh("git apply %s" % os.path.join(dst, "patch.diff"), "/repo")
        if rc != 0:
            print(name, "patch does not apply:", o); sys.exit(2)
        saved = {f: open(os.path.join(V, "evidence", f)).read() for f in os.listdir(os.path.join(V, "evidence")) if f.endswith(".json")}
        res = {}
        try:
            rc, o = sh("go build ./... && go test -count=1 . ./cmd/... ./parser/...", "/repo")
            meta["suite"] = "pass" if rc == 0 else "FAIL"
            for c in checks:
                rc, o = sh("./check %s" % c, V, timeout=1800)
                viol = [l for l in o.split("\n") if l.startswith("VIOLATION")]
                notes = [l[:300] for l in o.split("\n") if l.startswith("NOTE")]
                res[c] = dict(exit=rc, violation_lines=viol[:3], notes=notes[:2])
                if viol:
                    pth = viol[0].split("replay=")[1].split()[0]
                    if os.path.exists(pth):
                        r = json.load(open(pth))
                        res[c]["replay"] = {k: (v if not isinstance(v, str) else v[:400]) for k, v in r.items() if k in ("kind", "oracle", "correspondence", "input_text", "verdict", "what")}
                print(name, c, "exit", rc, viol[:1], flush=True)
        finally:
            sh("git checkout -- . && git clean -fdq", "/repo")
            for f, t in saved.items():
                open(os.path.join(V, "evidence", f), "w").write(t)
        meta["checks"] = res
        json.dump(meta, open(os.path.join(dst, "meta.json"), "w"), indent=1)
    elif sys.argv[1] == "detect-many":
        # detect-many NAME... : each change against the check of its own property; one re-setup at the end
        try:
            for name in sys.argv[2:]:
                detect(name, [name.split("-")[0]], resetup=False)
        finally:
            sh("./check --setup", V, timeout=1800)
    else:
        detect(sys.argv[2], sys.argv[3:])
