"""Machinery behind ./check (see DESIGN.md sections 1-3 and 7)."""
import json, os, re, subprocess, sys, time, fcntl, glob

V = os.path.dirname(os.path.abspath(__file__))
B = os.path.join(V, "build")
COQ = os.path.join(V, "coq")
ENV = dict(os.environ, GOFLAGS="-mod=mod", GOPROXY="off", GOSUMDB="off", GOTOOLCHAIN="local",
           PQL_BIN=os.path.join(B, "pql-bin"))
HARNESS = os.path.join(B, "harness")
DRIVER = os.path.join(B, "driver")
NPROC = 12

from props import PROPS, TRUSTED_BASE  # per-property configuration


def run(cmd, cwd=V, timeout=None, stdin=None, stdout=subprocess.PIPE):
    return subprocess.run(cmd, shell=isinstance(cmd, str), env=ENV, cwd=cwd, stdout=stdout,
                          stderr=subprocess.PIPE, text=True, timeout=timeout, stdin=stdin)


# ------------------------------------------------------------------------------------ build
def coq_files():
    """the _CoqProject file list (everything except Props/, which are compiled per check)"""
    out = []
    for line in open(os.path.join(COQ, "_CoqProject")):
        line = line.strip()
        if line.endswith(".v"):
            out.append(line)
    return out


def build_all(verbose=False, race=False):
    """(Re)build everything from /repo's working tree.  Never raises: returns a status dict
    {gen, coq, coq_failed:[files], extract, harness, bin, log}."""
    os.makedirs(os.path.join(B, "ocaml"), exist_ok=True)
    os.makedirs(os.path.join(B, "props"), exist_ok=True)
    lock = open(os.path.join(B, ".lock"), "w")
    fcntl.flock(lock, fcntl.LOCK_EX)
    st = dict(gen=False, coq=False, coq_failed=[], extract=False, harness=False, bin=False, log="")
    try:
        # 1. translator
        gen_bin = os.path.join(B, "gen")
        srcs = glob.glob(os.path.join(V, "gen", "*.go"))
        if not os.path.exists(gen_bin) or any(os.path.getmtime(s) > os.path.getmtime(gen_bin) for s in srcs):
            r = run(["go", "build", "-o", gen_bin, "."], cwd=os.path.join(V, "gen"))
            st["log"] += r.stderr
        r = run([gen_bin, "/repo", os.path.join(COQ, "Gen")])
        st["gen"] = r.returncode == 0
        st["log"] += r.stderr
        # a file the translator refused (a shape it does not recognise) keeps the committed table:
        # for this run that table is tied to the code by the correspondence runs only (DESIGN 2.1)
        st["gen_missed"] = sorted(set(re.findall(r"^translator-miss: (\w+\.v): ", r.stderr, re.M)))
        st["gen_miss_log"] = "\n".join(l for l in r.stderr.split("\n") if l.startswith("translator-miss"))[:1500]
        for f in st["gen_missed"]:
            g = run(["git", "-C", V, "show", "HEAD:coq/Gen/" + f])
            if g.returncode == 0:
                cur = open(os.path.join(COQ, "Gen", f)).read() if os.path.exists(os.path.join(COQ, "Gen", f)) else None
                if cur != g.stdout:
                    open(os.path.join(COQ, "Gen", f), "w").write(g.stdout)
        if r.returncode != 0 and st["gen_missed"] and len(st["gen_missed"]) == r.stderr.count("translator-miss: "):
            st["gen"] = True      # every miss is a per-file refusal with a committed fallback
        # 2. Coq project: full .vo build, keep going so that independent files still compile
        mk = os.path.join(COQ, "Makefile")
        cp = os.path.join(COQ, "_CoqProject")
        if not os.path.exists(mk) or os.path.getmtime(mk) < os.path.getmtime(cp):
            run("coq_makefile -f _CoqProject -o Makefile", cwd=COQ)
        r = run("timeout 3000 make -k -j16 2>&1", cwd=COQ)
        out = r.stdout
        st["coq"] = r.returncode == 0
        if not st["coq"]:
            st["coq_failed"] = sorted(set(re.findall(r'File "\./([^"]+\.v)"', out)))
            st["log"] += "\n".join(l for l in out.split("\n") if not l.startswith("COQ"))[-6000:]
        # 3. extraction and OCaml driver (needs the whole model)
        vo = glob.glob(os.path.join(COQ, "Model", "*.vo")) + glob.glob(os.path.join(COQ, "Spec", "*.vo"))
        model_ok = all(os.path.exists(os.path.join(COQ, f[:-2] + ".vo")) and
                       os.path.getmtime(os.path.join(COQ, f[:-2] + ".vo")) >= os.path.getmtime(os.path.join(COQ, f))
                       for f in coq_files() if f.startswith(("Model/", "Spec/", "Gen/")))
        if model_ok:
            deps = vo + [os.path.join(V, "ocaml", "driver.ml"), os.path.join(COQ, "Extract", "Extract.v")]
            if not os.path.exists(DRIVER) or any(os.path.getmtime(d) > os.path.getmtime(DRIVER) for d in deps):
                r = run("timeout 900 coqc -Q .. PQL Extract.v", cwd=os.path.join(COQ, "Extract"))
                if r.returncode == 0:
                    for f in ("model.ml", "model.mli"):
                        run(["cp", os.path.join(COQ, "Extract", f), os.path.join(B, "ocaml", f)])
                    run(["cp", os.path.join(V, "ocaml", "driver.ml"), os.path.join(B, "ocaml", "driver.ml")])
                    r = run("ocamlfind ocamlopt -O3 -w -a model.mli model.ml driver.ml -o ../driver 2>/dev/null || "
                            "ocamlfind ocamlopt -w -a model.mli model.ml driver.ml -o ../driver", cwd=os.path.join(B, "ocaml"))
                st["extract"] = r.returncode == 0
                st["log"] += r.stderr[-3000:]
            else:
                st["extract"] = True
        # 4. harness and the command-line tool, against the working tree
        run(["cp", "/repo/go.sum", os.path.join(V, "harness", "go.sum")])
        r = run(["go", "build", "-o", HARNESS, "."], cwd=os.path.join(V, "harness"))
        st["harness"] = r.returncode == 0
        st["log"] += r.stderr[-3000:]
        if race:
            r = run(["go", "build", "-race", "-o", HARNESS + "-race", "."], cwd=os.path.join(V, "harness"))
            st["log"] += r.stderr[-2000:]
        r = run(["go", "build", "-o", os.path.join(B, "pql-bin"), "./cmd/pql"], cwd="/repo")
        st["bin"] = r.returncode == 0
        st["log"] += r.stderr[-3000:]
    finally:
        fcntl.flock(lock, fcntl.LOCK_UN)
        lock.close()
    if verbose:
        print(json.dumps({k: v for k, v in st.items() if k != "log"}))
        if st["log"].strip():
            print(st["log"][-4000:])
    return st


def compile_props(pid):
    """Compile coq/Props/<pid>.v on its own, capturing Print Assumptions.  Returns
    (ok, log)."""
    src = os.path.join(COQ, "Props", pid + ".v")
    if not os.path.exists(src):
        return False, "no Props file"
    lock = open(os.path.join(B, ".lock"), "w")
    fcntl.flock(lock, fcntl.LOCK_EX)
    try:
        r = run("timeout 1200 coqc -w -notation-overridden,-ambiguous-paths,-deprecated -Q . PQL Props/%s.v 2>&1" % pid, cwd=COQ)
    finally:
        fcntl.flock(lock, fcntl.LOCK_UN)
        lock.close()
    log = r.stdout
    open(os.path.join(B, "props", pid + ".log"), "w").write(log)
    return r.returncode == 0, log


def coqchk_props(pid):
    """Re-check coq/Props/<pid>.vo and everything it depends on with the independent checker
    coqchk (thorough tier).  Returns (ok, context-summary text)."""
    lock = open(os.path.join(B, ".lock"), "w")
    fcntl.flock(lock, fcntl.LOCK_SH)
    try:
        r = run("timeout 3000 coqchk -silent -o -Q . PQL PQL.Props.%s 2>&1" % pid, cwd=COQ)
    finally:
        fcntl.flock(lock, fcntl.LOCK_UN)
        lock.close()
    out = r.stdout
    open(os.path.join(B, "props", pid + ".coqchk.log"), "w").write(out)
    i = out.find("CONTEXT SUMMARY")
    summ = " ".join(out[i:].split()) if i >= 0 else out[-1500:]
    ok = r.returncode == 0 and i >= 0
    for key in ("type-in-type", "unsafe (co)fixpoints", "positivity is assumed"):
        m = re.search(re.escape(key) + r":\s*(\S+)", summ)
        if not m or m.group(1) != "<none>":
            ok = False
    return ok, summ


def theorems_of(pid):
    p = os.path.join(COQ, "Props", pid + ".v")
    if not os.path.exists(p):
        return []
    src = re.sub(r"\(\*.*?\*\)", "", open(p).read(), flags=re.S)
    return re.findall(r"^\s*(?:Theorem|Corollary)\s+([A-Za-z0-9_']+)", src, re.M)


def assumptions(log):
    """{theorem: text} from `Print Assumptions` output: our Props files contain, after each
    theorem T, the line `Print Assumptions T.`; coqc prints either 'Closed under the global
    context' or 'Axioms:' followed by the list, in file order."""
    blocks = re.split(r"(?=Closed under the global context|Axioms:)", log)
    return [" ".join(b.split()) for b in blocks if b.startswith(("Closed", "Axioms"))]


FORBIDDEN = re.compile(r"\b(Admitted|admit|Axiom|Axioms|Parameter|Parameters|Conjecture|Conjectures|Abort|Guard Checking|bypass_check|Admit Obligations|native_compute|Positivity Checking|Universe Checking)\b")


def forbidden_in_coq():
    bad = []
    for root, _, files in os.walk(COQ):
        for fn in files:
            if not fn.endswith(".v"):
                continue
            path = os.path.join(root, fn)
            txt = re.sub(r"\(\*.*?\*\)", lambda m: "\n" * m.group(0).count("\n"), open(path).read(), flags=re.S)
            sect = 0
            for ln, line in enumerate(txt.split("\n"), 1):
                if re.match(r"\s*Section\b", line):
                    sect += 1
                elif re.match(r"\s*End\b", line) and sect > 0:
                    sect -= 1
                m = FORBIDDEN.search(line)
                if m:
                    bad.append("%s:%d: %s" % (os.path.relpath(path, V), ln, line.strip()))
                if re.match(r"\s*(Variable|Variables|Hypothesis|Hypotheses|Context)\b", line) and sect == 0:
                    bad.append("%s:%d: %s (outside a section)" % (os.path.relpath(path, V), ln, line.strip()))
    return bad


# ------------------------------------------------------------------------------------ runs
def gen_inputs(family, seed, n, path):
    with open(path, "w") as f:
        r = subprocess.run([HARNESS, "gen", family, str(seed), str(n)], stdout=f, env=ENV, stderr=subprocess.PIPE, text=True)
    if r.returncode != 0:
        raise RuntimeError("generator %s failed: %s" % (family, r.stderr))


def read_lines(path):
    with open(path) as f:
        s = f.read().split("\n")
    if s and s[-1] == "":
        s.pop()
    return s


def run_lines(kind, stage, lines, shards=None):
    """Run the implementation ('impl') or the model ('model') on input lines; returns output lines."""
    if not lines:
        return []
    args = [HARNESS, "run", stage] if kind == "impl" else ([HARNESS + "-race", "run", stage] if kind == "race" else [DRIVER, stage])
    if shards is None:
        shards = NPROC if (len(lines) >= 400 or (stage in ("cli", "oracle-C16") and len(lines) >= 32)) else 1
    if stage in ("cli", "oracle-C16"):
        shards = min(shards, 8)
    k = max(1, (len(lines) + shards - 1) // shards)
    procs = []
    for j in range(0, len(lines), k):
        p = subprocess.Popen(args, stdin=subprocess.PIPE, stdout=subprocess.PIPE, stderr=subprocess.PIPE, env=ENV, text=True)
        procs.append((p, "\n".join(lines[j:j + k]) + "\n"))
    # feed all, then collect (inputs are small enough for the pipes thanks to threads in communicate)
    import threading
    results = [None] * len(procs)

    def work(i, p, data):
        out, err = p.communicate(data)
        results[i] = (p.returncode, out, err)
    ths = [threading.Thread(target=work, args=(i, p, d)) for i, (p, d) in enumerate(procs)]
    for t in ths:
        t.start()
    for t in ths:
        t.join()
    out = []
    for rc, o, e in results:
        if rc != 0:
            raise RuntimeError("%s %s failed (exit %s): %s" % (kind, stage, rc, e[-1500:]))
        ls = o.split("\n")
        if ls and ls[-1] == "":
            ls.pop()
        out.extend(ls)
    if len(out) != len(lines):
        raise RuntimeError("%s %s: %d outputs for %d inputs" % (kind, stage, len(out), len(lines)))
    return out


def run_oracle(kind, ostage, lines, shards=None):
    """An oracle stage on the implementation; 'reread' feeds the implementation's SQL to the
    reference reader extracted from coq/Spec (ok / skip / FAIL ...)."""
    if ostage != "reread":
        return run_lines(kind, ostage, lines, shards=shards)
    comp = run_lines("impl", "compile", lines, shards=shards)
    idx, rl = [], []
    for i, (l, o) in enumerate(zip(lines, comp)):
        if o.startswith("OK "):
            idx.append(i)
            rl.append(l + "\t" + o[3:])
    res = ["ok"] * len(lines)
    if rl:
        if not os.path.exists(DRIVER):
            return ["skip"] * len(lines)
        out = run_lines("model", "reread", rl, shards=shards)
        for i, o in zip(idx, out):
            res[i] = o
    return res


def _status(x):
    w = x.split(" ", 1)[0]
    return w if w in ("OK", "ERR", "PANIC", "HANG", "FUEL", "INTERNAL", "CRASH") else ("OK" if x != "" or True else x)


PROJ = {"status": _status}


def show_input(line, limit=300):
    f = line.split("\t")
    try:
        s = bytes.fromhex(f[0]).decode("utf-8", "backslashreplace")
    except ValueError:
        s = f[0]
    if len(s) > limit:
        s = s[:limit] + "...(%d bytes)" % len(bytes.fromhex(f[0]))
    extra = ""
    if len(f) > 1:
        dec = []
        for x in f[1:]:
            try:
                dec.append(bytes.fromhex(x).decode("utf-8", "backslashreplace") if re.fullmatch(r"(?:[0-9a-f]{2})+", x) else x)
            except ValueError:
                dec.append(x)
        extra = " | " + ", ".join(dec)
    return s + extra


# ------------------------------------------------------------------------------------ shrinking
def shrink(line, still_fails, budget_s=20):
    """ddmin over the bytes of the first field, keeping the other fields."""
    f = line.split("\t")
    try:
        data = bytes.fromhex(f[0])
    except ValueError:
        return line
    t0 = time.time()

    def mk(d):
        return "\t".join([d.hex()] + f[1:])
    n = 2
    while len(data) >= 2 and time.time() - t0 < budget_s:
        chunk = max(1, len(data) // n)
        reduced = False
        for i in range(0, len(data), chunk):
            cand = data[:i] + data[i + chunk:]
            if cand != data and still_fails(mk(cand)):
                data = cand
                n = max(n - 1, 2)
                reduced = True
                break
            if time.time() - t0 > budget_s:
                break
        if not reduced:
            if chunk == 1:
                break
            n = min(len(data), n * 2)
    return mk(data)


# ------------------------------------------------------------------------------------ the check
def load_known():
    p = os.path.join(V, "known_findings.json")
    if not os.path.exists(p):
        return []
    return [k for k in json.load(open(p)).get("findings", [])]


def matches_known(pid, line, msg, known):
    for k in known:
        if k.get("property") != pid:
            continue
        m = k.get("match", {})
        ok = True
        if "message" in m and not re.search(m["message"], msg):
            ok = False
        if "input" in m:
            try:
                s = bytes.fromhex(line.split("\t")[0]).decode("latin1")
            except ValueError:
                s = line
            if not re.search(m["input"], s, re.S):
                ok = False
        if ok:
            return k
    return None


def write_replay(pid, n, payload):
    d = os.path.join(B, "replay")
    os.makedirs(d, exist_ok=True)
    p = os.path.join(d, "%s-%d.json" % (pid, n))
    json.dump(payload, open(p, "w"), indent=1)
    return p


def run_check(pid, tier, seed, replay=None):
    t0 = time.time()
    cfg = PROPS[pid]
    if replay:
        return do_replay(pid, replay)
    violations = []      # (kind, replay payload, no_input_found)
    known_hits = {}
    known = load_known()
    st = build_all(race=bool(cfg.get("race")))
    # ---- A: proof obligations
    thms = theorems_of(pid)
    a_ok, a_msgs = True, []
    if not st["gen"]:
        a_ok = False; a_msgs.append("translator-miss: " + st["log"][-800:])
    gen_missed = st.get("gen_missed", [])
    if gen_missed:
        # the write-site table of C14 describes something no correspondence run can observe
        if pid == "C14" and "Shared.v" in gen_missed:
            a_ok = False; a_msgs.append("translator-miss: " + st.get("gen_miss_log", ""))
        else:
            print("NOTE: the translator could not regenerate %s from /repo (%s); the committed table is used and is tied to the code by the correspondence runs of this check only"
                  % (", ".join("coq/Gen/" + f for f in gen_missed), st.get("gen_miss_log", "").replace("\n", " | ")[:400]))
    bad = forbidden_in_coq()
    if bad:
        a_ok = False; a_msgs.append("forbidden vernacular: " + "; ".join(bad[:5]))
    pok, plog = compile_props(pid)
    if not pok:
        a_ok = False
        a_msgs.append("coq/Props/%s.v does not compile: %s" % (pid, plog[-1500:]))
    assum = assumptions(plog) if pok else []
    if pok and len(assum) < len(thms):
        a_ok = False; a_msgs.append("only %d Print Assumptions results for %d theorems" % (len(assum), len(thms)))
    axioms = sorted(set(a for a in assum if a.startswith("Axioms")))
    discharged = len(thms) if pok else 0
    chk_note = []
    if tier == "thorough" and pok and a_ok:
        cok, csum = coqchk_props(pid)
        chk_note.append("coqchk -o PQL.Props.%s: %s" % (pid, csum))
        if not cok:
            a_ok = False; a_msgs.append("coqchk rejects coq/Props/%s.vo or reports a disabled check: %s" % (pid, csum[-1200:]))
        else:
            m = re.search(r"Axioms: (.*?) \* Constants", csum)
            chk_ax = m.group(1).split() if m else []
            allowed = ("Coq.Logic.FunctionalExtensionality.functional_extensionality_dep",)
            extra = [a for a in chk_ax if a != "<none>" and a not in allowed]
            if extra:
                a_ok = False; a_msgs.append("coqchk lists axioms outside the trusted base: " + " ".join(extra))
    # ---- B and C
    evaluations = 0
    distinct = set()
    dist = {}
    samples = []
    b_breaks = []        # (stage, input line, impl, model)
    c_fails = []         # (oracle stage, input line, message)
    model_available = st["extract"] and os.path.exists(DRIVER)
    harness_ok = st["harness"] and (st["bin"] or not any(s == "cli" for _, s, _, _ in cfg["corr"]))
    tmp = os.path.join(B, "work-%s-%d" % (pid, os.getpid()))
    os.makedirs(tmp, exist_ok=True)
    notes = []
    try:
        if not harness_ok:
            violations.append(("build", dict(property=pid, broken="the harness or cmd/pql does not build against /repo", log=st["log"][-3000:]), True))
        else:
            runs = list(cfg.get("corr", []))
            oruns = list(cfg.get("oracle", []))
            if tier == "thorough":
                runs += cfg.get("thorough_corr", [])
                oruns += cfg.get("thorough_oracle", [])
            inputs_cache = {}

            def inputs_for(family, nq, nt, stage):
                n = nt if tier == "thorough" else nq
                key = (family, n)
                if key not in inputs_cache:
                    p = os.path.join(tmp, "in-%s-%d" % (family, n))
                    gen_inputs(family, seed, n, p)
                    inputs_cache[key] = read_lines(p)
                ls = inputs_cache[key]
                extra = []
                for c in cfg.get("corpus", []):
                    cp = os.path.join(V, "corpus", c)
                    if os.path.exists(cp):
                        for l in read_lines(cp):
                            if l and not l.startswith("#"):
                                st_, _, payload = l.partition(" ")
                                if st_ == "*" or st_ == stage or (stage.startswith("oracle-") and st_ == "oracle"):
                                    extra.append(payload)
                return extra + ls

            # C first on the implementation alone (it does not need the model)
            for family, ostage, nq, nt in oruns:
                ls = inputs_for(family, nq, nt, ostage)
                outs = run_oracle("race" if (cfg.get("race") and ostage == "oracle-C14" and os.path.exists(HARNESS + "-race")) else "impl", ostage, ls)
                evaluations += len(ls)
                for l, o in zip(ls, outs):
                    distinct.add((ostage, l)) if o == "ok" else None
                    key = "%s/%s:%s" % (family, ostage, "ok" if o == "ok" else ("skip" if o == "skip" else "FAIL"))
                    if o == "skip":
                        o = "ok"
                    dist[key] = dist.get(key, 0) + 1
                    if o != "ok":
                        c_fails.append((ostage, l, o))
                if ls and len(samples) < 6:
                    samples.append(dict(oracle=ostage, family=family, input=show_input(ls[len(ls) // 2]), verdict=outs[len(ls) // 2][:200]))
            # fresh processes must agree with each other (first use in a process included)
            for family, stage, nq, nt, k in cfg.get("repeat", []):
                ls = inputs_for(family, nq, nt, stage)
                outs = [run_lines("impl", stage, ls, shards=1) for _ in range(k)]
                evaluations += len(ls) * k
                for i, l in enumerate(ls):
                    if len(set(o[i] for o in outs)) > 1:
                        variants = sorted(set(bytes.fromhex(o[i]).decode("utf-8", "replace")[:300] for o in outs))
                        c_fails.append(("fresh-process:" + stage, l, "FAIL results differ between fresh processes: " + " <> ".join(variants)[:500]))
                dist["%s/%s:x%d" % (family, stage, k)] = len(ls)
            # B
            if model_available:
                for run_ in runs:
                    family, stage, nq, nt = run_[:4]
                    proj = PROJ[run_[4]] if len(run_) > 4 else (lambda x: x)
                    ls = inputs_for(family, nq, nt, stage)
                    io = [proj(x) for x in run_lines("impl", stage, ls)]
                    mo = [proj(x) for x in run_lines("model", stage, ls)]
                    evaluations += len(ls)
                    for l, a, b in zip(ls, io, mo):
                        cls = a.split(" ", 1)[0][:8] if a else "empty"
                        key = "%s/%s:%s" % (family, stage, cls if cls in ("OK", "ERR", "PANIC", "HANG", "FUEL", "empty", "0", "1") else "other")
                        dist[key] = dist.get(key, 0) + 1
                        if a not in ("", "ERR", "-"):
                            distinct.add((stage, l))
                        if a != b:
                            b_breaks.append((stage, l, a, b))
                        if a.startswith(("PANIC", "HANG", "CRASH", "STDERR-MISMATCH", "HARNESS-ERROR")):
                            c_fails.append(("totality:" + stage, l, a))
                    if ls and len(samples) < 12:
                        j = (len(ls) * 2) // 3
                        samples.append(dict(stage=stage, family=family, input=show_input(ls[j]), implementation=io[j][:300], model=mo[j][:300]))
            else:
                notes.append("model not available (Coq build or extraction failed): correspondence not run")
            # oracle on the inputs where B disagreed
            omap = cfg.get("oracle_for_stage", {})
            if b_breaks:
                for stage, l, a, b in b_breaks[:200]:
                    for ostage in omap.get(stage, []):
                        o = run_oracle("impl", ostage, [l], shards=1)[0]
                        if o not in ("ok", "skip"):
                            c_fails.append((ostage, l, o))
    except RuntimeError as e:
        violations.append(("machinery", dict(property=pid, broken="check machinery failed", error=str(e)[-3000:]), True))
    finally:
        import shutil
        shutil.rmtree(tmp, ignore_errors=True)

    # ---- verdict
    out_lines = []
    nrep = 0
    unknown_c = []
    for ostage, l, msg in c_fails:
        k = matches_known(pid, l, msg, known)
        if k:
            known_hits[k["id"]] = k
        else:
            unknown_c.append((ostage, l, msg))
    if unknown_c:
        # report the smallest failing input (after shrinking), one VIOLATION line per distinct message class
        seen = set()
        for ostage, l, msg in sorted(unknown_c, key=lambda x: len(x[1])):
            cls = re.sub(r"[0-9]+", "N", msg)[:60]
            if cls in seen or len(seen) >= 3:
                continue
            seen.add(cls)
            small = l
            if ostage.startswith("oracle-"):
                def still(c, ostage=ostage, cls=cls):
                    try:
                        o = run_oracle("impl", ostage, [c], shards=1)[0]
                    except RuntimeError:
                        return False
                    return o != "ok" and re.sub(r"[0-9]+", "N", o)[:60] == cls
                small = shrink(l, still)
                msg = run_oracle("impl", ostage, [small], shards=1)[0]
            nrep += 1
            p = write_replay(pid, nrep, dict(property=pid, kind="failing-input", oracle=ostage, input=small,
                                             input_text=show_input(small, 2000), verdict=msg,
                                             replay_cmd="./check %s --replay <this file>" % pid))
            out_lines.append("VIOLATION property=%s replay=%s" % (pid, p))
    if not unknown_c:
        if not a_ok:
            nrep += 1
            p = write_replay(pid, nrep, dict(property=pid, kind="proof-obligation-broken", theorems=thms, what=a_msgs,
                                             build_log=st["log"][-3000:], coq_failed=st["coq_failed"]))
            out_lines.append("VIOLATION property=%s replay=%s no-failing-input-found" % (pid, p))
        elif not model_available and harness_ok:
            nrep += 1
            p = write_replay(pid, nrep, dict(property=pid, kind="model-does-not-build", coq_failed=st["coq_failed"], build_log=st["log"][-3000:]))
            out_lines.append("VIOLATION property=%s replay=%s no-failing-input-found" % (pid, p))
        elif b_breaks:
            stage, l, a, b = min(b_breaks, key=lambda x: len(x[1]))

            def still_b(c, stage=stage):
                try:
                    return run_lines("impl", stage, [c], shards=1)[0] != run_lines("model", stage, [c], shards=1)[0]
                except RuntimeError:
                    return False
            small = shrink(l, still_b)
            a = run_lines("impl", stage, [small], shards=1)[0]
            b = run_lines("model", stage, [small], shards=1)[0]
            nrep += 1
            p = write_replay(pid, nrep, dict(property=pid, kind="correspondence-broken", correspondence=stage, input=small,
                                             input_text=show_input(small, 2000), implementation=a[:4000], model=b[:4000],
                                             disagreements=len(b_breaks)))
            out_lines.append("VIOLATION property=%s replay=%s no-failing-input-found" % (pid, p))
    for kind, payload, nif in violations:
        nrep += 1
        p = write_replay(pid, nrep, payload)
        out_lines.append("VIOLATION property=%s replay=%s%s" % (pid, p, " no-failing-input-found" if nif else ""))
    for k in known_hits.values():
        print("KNOWN-FINDING: property=%s %s" % (pid, k["what"]))
    for l in out_lines:
        print(l)

    # ---- evidence
    wall = time.time() - t0
    ev = dict(
        property_id=pid, tier=tier, seed=seed, level="proof",
        coverage=dict(
            obligations=len(thms), discharged=discharged,
            checker_cmd="cd /verif/coq && make (full .vo build of the model and proofs) && coqc -Q . PQL Props/%s.v" % pid + (" && coqchk -silent -o -Q . PQL PQL.Props.%s" % pid if tier == "thorough" else ""),
            trusted_base=TRUSTED_BASE + cfg.get("trusted_extra", []),
            theorems=thms, print_assumptions=assum, axioms_used=axioms,
            generated_tables=cfg.get("tables", []),
            evaluations=evaluations, distinct_nontrivial=len(distinct),
            rule="inputs come from the seeded generators of /verif/harness (families and sizes in input_distribution) plus the committed corpus; "
                 "an input counts as non-trivial when the implementation produced a non-empty observation other than a bare rejection for it, and as distinct by (stage, input bytes)",
            samples=samples, input_distribution=dist,
            correspondence_disagreements=len(b_breaks), oracle_failures=len(c_fails),
            known_findings_seen=sorted(known_hits),
            notes=notes + a_msgs + chk_note + (["translator refused %s (%s): committed table used, tied by correspondence only in this run" % (", ".join(gen_missed), st.get("gen_miss_log", "")[:300])] if gen_missed else []),
            exhaustive=False),
        assumptions=cfg.get("assumptions", []),
        wall_s=round(wall, 2), violations=len(out_lines))
    os.makedirs(os.path.join(V, "evidence"), exist_ok=True)
    json.dump(ev, open(os.path.join(V, "evidence", pid + ".json"), "w"), indent=1)
    print("%s: obligations=%d discharged=%d evaluations=%d disagreements=%d oracle_failures=%d wall=%.1fs" %
          (pid, len(thms), discharged, evaluations, len(b_breaks), len(c_fails), wall))
    return 1 if out_lines else 0


def do_replay(pid, path):
    build_all()
    r = json.load(open(path))
    print(json.dumps({k: v for k, v in r.items() if k not in ("build_log",)}, indent=1)[:4000])
    l = r.get("input")
    if l is None:
        return 0
    cfg = PROPS[pid]
    stage = r.get("correspondence")
    if stage:
        print("implementation:", run_lines("impl", stage, [l], shards=1)[0][:2000])
        print("model:         ", run_lines("model", stage, [l], shards=1)[0][:2000])
    o = r.get("oracle")
    if o and o.startswith("fresh-process:"):
        st = o.split(":", 1)[1]
        outs = sorted(set(run_lines("impl", st, [l], shards=1)[0][:1500] for _ in range(6)))
        print("implementation (%d fresh processes, %d distinct results):" % (6, len(outs)))
        for x in outs:
            print("   ", x)
    elif o and not o.startswith("totality:"):
        # every oracle (oracle-Cxx, reread, ...) is re-evaluated on the current implementation
        print("oracle %s on the current implementation: %s" % (o, run_oracle("impl", o, [l])[0][:3000]))
        if not stage:
            for st in ("compile", "parse", "scan"):
                if any(st == c[1] for c in cfg.get("corr", [])):
                    print("implementation (%s):" % st, run_lines("impl", st, [l], shards=1)[0][:1500])
                    print("model          (%s):" % st, run_lines("model", st, [l], shards=1)[0][:1500])
                    break
    return 0


def main():
    args = sys.argv[1:]
    if not args:
        print("usage: check <ID> [--tier quick|thorough] [--replay FILE] | check --setup"); sys.exit(2)
    if args[0] == "--setup":
        st = build_all(verbose=True, race=True)
        ok = st["gen"] and st["coq"] and st["extract"] and st["harness"] and st["bin"]
        print("SETUP-OK" if ok else "SETUP-FAILED")
        sys.exit(0 if ok else 1)
    pid = args[0]
    tier = os.environ.get("VERIF_TIER", "quick")
    replay = None
    i = 1
    while i < len(args):
        if args[i] == "--tier":
            tier = args[i + 1]; i += 2
        elif args[i] == "--replay":
            replay = args[i + 1]; i += 2
        else:
            print("unknown argument", args[i]); sys.exit(2)
    if tier not in ("quick", "thorough"):
        tier = "quick"
    try:
        seed = int(os.environ.get("VERIF_SEED", "1"))
    except ValueError:
        seed = 1
    if pid not in PROPS:
        print("unknown property", pid); sys.exit(2)
    sys.exit(run_check(pid, tier, seed, replay))
