package main

import (
	"fmt"
	"go/ast"
	"go/token"
	"os"
	"path/filepath"
	"sort"
	"strings"
)

type field struct {
	name string
	typ  string // Gallina ftype term
	cat  string // span | node | slice | other
}

type structInfo struct {
	name   string
	fields []field
}

func classify(e ast.Expr, nodeTypes map[string]bool, ifaces map[string]bool) (string, string) {
	switch t := e.(type) {
	case *ast.Ident:
		switch {
		case t.Name == "Span":
			return "FT_Span", "span"
		case t.Name == "string":
			return "FT_String", "other"
		case t.Name == "bool":
			return "FT_Bool", "other"
		case t.Name == "TokenKind":
			return "FT_Kind", "other"
		case ifaces[t.Name]:
			return "FT_Iface", "node"
		}
	case *ast.StarExpr:
		if id, ok := t.X.(*ast.Ident); ok && nodeTypes[id.Name] {
			return fmt.Sprintf("(FT_Ptr N_%s)", id.Name), "node"
		}
	case *ast.ArrayType:
		if t.Len == nil {
			inner, cat := classify(t.Elt, nodeTypes, ifaces)
			if cat == "node" {
				return fmt.Sprintf("(FT_Slice %s)", inner), "slice"
			}
		}
	}
	fail("unrecognised field type %s", src(e))
	return "", ""
}

func genAst(o *out, f *ast.File, pql *ast.File) {
	// node types = struct types with a Span() method; interfaces = interface types embedding Node.
	hasSpan := map[string]*ast.FuncDecl{}
	for _, d := range f.Decls {
		if fd, ok := d.(*ast.FuncDecl); ok && fd.Name.Name == "Span" && fd.Recv != nil {
			hasSpan[recvName(fd.Recv.List[0].Type)] = fd
		}
	}
	ifaces := map[string]bool{"Node": true}
	structs := map[string]*ast.StructType{}
	var order []string
	for _, d := range f.Decls {
		gd, ok := d.(*ast.GenDecl)
		if !ok || gd.Tok != token.TYPE {
			continue
		}
		for _, sp := range gd.Specs {
			ts := sp.(*ast.TypeSpec)
			switch t := ts.Type.(type) {
			case *ast.InterfaceType:
				ifaces[ts.Name.Name] = true
			case *ast.StructType:
				if hasSpan[ts.Name.Name] != nil {
					structs[ts.Name.Name] = t
					order = append(order, ts.Name.Name)
				}
			}
		}
	}
	nodeTypes := map[string]bool{}
	for _, n := range order {
		nodeTypes[n] = true
	}
	var infos []structInfo
	fnames := map[string]bool{}
	for _, n := range order {
		si := structInfo{name: n}
		for _, fl := range structs[n].Fields.List {
			typ, cat := classify(fl.Type, nodeTypes, ifaces)
			for _, nm := range fl.Names {
				si.fields = append(si.fields, field{nm.Name, typ, cat})
				fnames[nm.Name] = true
			}
		}
		infos = append(infos, si)
	}
	var fl []string
	for n := range fnames {
		fl = append(fl, n)
	}
	sort.Strings(fl)

	o.p("(** Node types of parser/ast.go (struct types with a Span method). *)")
	o.p("Inductive nkind :=")
	for _, n := range order {
		o.p("  | N_%s", n)
	}
	o.p(".")
	o.p("Definition all_nkinds : list nkind := [%s].", strings.Join(mapS(order, func(s string) string { return "N_" + s }), "; "))
	o.p("Definition nkind_code (k : nkind) : nat :=")
	o.p("  match k with")
	for i, n := range order {
		o.p("  | N_%s => %d", n, i)
	}
	o.p("  end.")
	o.p("Definition nkind_eqb (a b : nkind) : bool := Nat.eqb (nkind_code a) (nkind_code b).")
	o.p("Definition nkind_name (k : nkind) : str :=")
	o.p("  match k with")
	for _, n := range order {
		o.p("  | N_%s => %s", n, coqStr(n))
	}
	o.p("  end.")
	o.p("")
	o.p("(** Field names. *)")
	o.p("Inductive fname :=")
	for _, n := range fl {
		o.p("  | F_%s", n)
	}
	o.p(".")
	o.p("Definition fname_code (f : fname) : nat :=")
	o.p("  match f with")
	for i, n := range fl {
		o.p("  | F_%s => %d", n, i)
	}
	o.p("  end.")
	o.p("Definition fname_eqb (a b : fname) : bool := Nat.eqb (fname_code a) (fname_code b).")
	o.p("")
	o.p("Inductive ftype := FT_Span | FT_String | FT_Bool | FT_Kind | FT_Iface | FT_Ptr (k : nkind) | FT_Slice (t : ftype).")
	o.p("")
	o.p("(** Struct declarations: fields in declaration order. *)")
	o.p("Definition ast_fields (k : nkind) : list (fname * ftype) :=")
	o.p("  match k with")
	for _, si := range infos {
		o.p("  | N_%s => [%s]", si.name, strings.Join(mapS(si.fields, func(f field) string {
			return fmt.Sprintf("(F_%s, %s)", f.name, f.typ)
		}), "; "))
	}
	o.p("  end.")
	o.p("")

	// ---- Span() methods
	o.p("(** Span methods: the parts whose union is returned, in source order, and")
	o.p("    whether the method starts with a nil-receiver guard. *)")
	o.p("Inductive spart := SP_Span (f : fname) | SP_Node (f : fname) | SP_Slice (f : fname).")
	o.p("Definition span_parts (k : nkind) : list spart :=")
	o.p("  match k with")
	guards := map[string]bool{}
	for _, si := range infos {
		parts, guard := spanParts(hasSpan[si.name], si)
		guards[si.name] = guard
		o.p("  | N_%s => [%s]", si.name, strings.Join(parts, "; "))
	}
	o.p("  end.")
	o.p("Definition span_nil_guard (k : nkind) : bool :=")
	o.p("  match k with")
	for _, si := range infos {
		o.p("  | N_%s => %v", si.name, guards[si.name])
	}
	o.p("  end.")
	o.p("")

	// ---- Walk
	genWalk(o, f, infos)

	// ---- canAttachSort and split conditions (pql.go)
	genCanAttach(o, pql, nodeTypes)
	genSplitConds(o, pql)
}

func fieldCat(si structInfo, name string) string {
	for _, f := range si.fields {
		if f.name == name {
			return f.cat
		}
	}
	fail("%s has no field %s", si.name, name)
	return ""
}

// recvField returns F for `recv.F`.
func recvField(e ast.Expr, recv string) (string, bool) {
	se, ok := e.(*ast.SelectorExpr)
	if !ok {
		return "", false
	}
	id, ok := se.X.(*ast.Ident)
	if !ok || id.Name != recv {
		return "", false
	}
	return se.Sel.Name, true
}

func spanParts(fd *ast.FuncDecl, si structInfo) ([]string, bool) {
	recv := fd.Recv.List[0].Names[0].Name
	body := fd.Body.List
	guard := false
	if len(body) > 0 {
		if ifs, ok := body[0].(*ast.IfStmt); ok && src(ifs.Cond) == recv+" == nil" {
			if len(ifs.Body.List) != 1 || src(ifs.Body.List[0]) != "return nullSpan()" {
				fail("%s.Span: nil guard body", si.name)
			}
			guard = true
			body = body[1:]
		}
	}
	// LetStatement shape: v := nullSpan(); if recv.F != nil { v = recv.F.Span() }
	locals := map[string]string{}
	for len(body) > 1 {
		as, ok := body[0].(*ast.AssignStmt)
		if !ok || as.Tok != token.DEFINE || len(as.Lhs) != 1 || src(as.Rhs[0]) != "nullSpan()" {
			fail("%s.Span: unrecognised statement %s", si.name, src(body[0]))
		}
		v := as.Lhs[0].(*ast.Ident).Name
		ifs, ok := body[1].(*ast.IfStmt)
		if !ok || len(ifs.Body.List) != 1 {
			fail("%s.Span: expected guarded assignment after %s", si.name, v)
		}
		be, ok := ifs.Cond.(*ast.BinaryExpr)
		if !ok || be.Op != token.NEQ || src(be.Y) != "nil" {
			fail("%s.Span: guard %s", si.name, src(ifs.Cond))
		}
		fn, ok := recvField(be.X, recv)
		if !ok {
			fail("%s.Span: guard %s", si.name, src(ifs.Cond))
		}
		if src(ifs.Body.List[0]) != fmt.Sprintf("%s = %s.%s.Span()", v, recv, fn) {
			fail("%s.Span: guarded assignment %s", si.name, src(ifs.Body.List[0]))
		}
		locals[v] = fn
		body = body[2:]
	}
	if len(body) != 1 {
		fail("%s.Span: expected a single return", si.name)
	}
	ret, ok := body[0].(*ast.ReturnStmt)
	if !ok || len(ret.Results) != 1 {
		fail("%s.Span: expected return", si.name)
	}
	part := func(e ast.Expr) string {
		if id, ok := e.(*ast.Ident); ok {
			if fn, ok := locals[id.Name]; ok {
				return "SP_Node F_" + fn
			}
		}
		if fn, ok := recvField(e, recv); ok {
			if fieldCat(si, fn) != "span" {
				fail("%s.Span: %s is not a Span field", si.name, fn)
			}
			return "SP_Span F_" + fn
		}
		if call, ok := e.(*ast.CallExpr); ok {
			if id, ok := call.Fun.(*ast.Ident); ok && len(call.Args) == 1 {
				fn, ok2 := recvField(call.Args[0], recv)
				if ok2 && id.Name == "nodeSpan" && fieldCat(si, fn) == "node" {
					return "SP_Node F_" + fn
				}
				if ok2 && id.Name == "nodeSliceSpan" && fieldCat(si, fn) == "slice" {
					return "SP_Slice F_" + fn
				}
			}
			if se, ok := call.Fun.(*ast.SelectorExpr); ok && se.Sel.Name == "Span" && len(call.Args) == 0 {
				if fn, ok := recvField(se.X, recv); ok && fieldCat(si, fn) == "node" {
					return "SP_Node F_" + fn
				}
			}
		}
		fail("%s.Span: unrecognised part %s", si.name, src(e))
		return ""
	}
	res := ret.Results[0]
	if call, ok := res.(*ast.CallExpr); ok {
		if id, ok := call.Fun.(*ast.Ident); ok && id.Name == "unionSpans" {
			var parts []string
			for _, a := range call.Args {
				parts = append(parts, part(a))
			}
			return parts, guard
		}
	}
	return []string{part(res)}, guard
}

func isPush(s ast.Stmt) (ast.Expr, bool) {
	as, ok := s.(*ast.AssignStmt)
	if !ok || len(as.Lhs) != 1 || len(as.Rhs) != 1 || src(as.Lhs[0]) != "stack" {
		return nil, false
	}
	call, ok := as.Rhs[0].(*ast.CallExpr)
	if !ok || src(call.Fun) != "append" || len(call.Args) != 2 || src(call.Args[0]) != "stack" {
		return nil, false
	}
	return call.Args[1], true
}

func genWalk(o *out, f *ast.File, infos []structInfo) {
	fd := findFunc(f, "", "Walk")
	var sw *ast.TypeSwitchStmt
	ast.Inspect(fd, func(n ast.Node) bool {
		if t, ok := n.(*ast.TypeSwitchStmt); ok && sw == nil {
			sw = t
		}
		return true
	})
	if sw == nil {
		fail("Walk: no type switch")
	}
	byName := map[string]structInfo{}
	for _, si := range infos {
		byName[si.name] = si
	}
	cases := map[string]string{}
	for _, c := range sw.Body.List {
		cc := c.(*ast.CaseClause)
		if cc.List == nil {
			continue // default: panic
		}
		for _, te := range cc.List {
			tn := selName(te)
			if _, ok := byName[tn]; !ok {
				fail("Walk: case for unknown type %s", tn)
			}
			cases[tn] = walkCase(tn, cc.Body)
		}
	}
	o.p("(** parser/ast.go [Walk]: per node type, [None] when the type switch has no case")
	o.p("    (the default branch panics), otherwise the pushes in source order.")
	o.p("    [P_Field f g]: push field f (g = guarded by `!= nil`);")
	o.p("    [P_SliceRev f]: push the elements of f last to first; [P_SliceFwd f]: first to last;")
	o.p("    [P_SliceRevEach f ps]: for each element of f, last to first, push its fields ps. *)")
	o.p("Inductive push := P_Field (f : fname) (guarded : bool) | P_SliceRev (f : fname) | P_SliceFwd (f : fname)")
	o.p("  | P_SliceRevEach (f : fname) (ps : list (fname * bool)).")
	o.p("Definition walk_children (k : nkind) : option (list push) :=")
	o.p("  match k with")
	for _, si := range infos {
		if c, ok := cases[si.name]; ok {
			o.p("  | N_%s => Some [%s]", si.name, c)
		} else {
			o.p("  | N_%s => None", si.name)
		}
	}
	o.p("  end.")
	o.p("")
}

func walkCase(tn string, body []ast.Stmt) string {
	if len(body) != 1 {
		fail("Walk %s: expected one statement", tn)
	}
	if es, ok := body[0].(*ast.ExprStmt); ok && src(es.X) == "visit(n)" {
		return ""
	}
	ifs, ok := body[0].(*ast.IfStmt)
	if !ok || src(ifs.Cond) != "visit(n)" || ifs.Else != nil {
		fail("Walk %s: expected `if visit(n)`", tn)
	}
	var ps []string
	for _, s := range ifs.Body.List {
		ps = append(ps, walkPush(tn, s))
	}
	return strings.Join(ps, "; ")
}

func walkPush(tn string, s ast.Stmt) string {
	if e, ok := isPush(s); ok {
		fn, ok := recvField(e, "n")
		if !ok {
			fail("Walk %s: push of %s", tn, src(e))
		}
		return fmt.Sprintf("P_Field F_%s false", fn)
	}
	if ifs, ok := s.(*ast.IfStmt); ok && ifs.Else == nil && len(ifs.Body.List) == 1 {
		if e, ok := isPush(ifs.Body.List[0]); ok {
			fn, ok := recvField(e, "n")
			if ok && src(ifs.Cond) == "n."+fn+" != nil" {
				return fmt.Sprintf("P_Field F_%s true", fn)
			}
		}
		fail("Walk %s: unrecognised guarded push %s", tn, src(s))
	}
	if fs, ok := s.(*ast.ForStmt); ok {
		// for i := len(n.F) - 1; i >= 0; i-- { ... }
		init := src(fs.Init)
		if !strings.HasPrefix(init, "i := len(n.") || !strings.HasSuffix(init, ") - 1") || src(fs.Cond) != "i >= 0" || src(fs.Post) != "i--" {
			fail("Walk %s: unrecognised loop header %s; %s; %s", tn, init, src(fs.Cond), src(fs.Post))
		}
		fn := strings.TrimSuffix(strings.TrimPrefix(init, "i := len(n."), ") - 1")
		elem := "n." + fn + "[i]"
		if len(fs.Body.List) == 1 {
			if e, ok := isPush(fs.Body.List[0]); ok && src(e) == elem {
				return fmt.Sprintf("P_SliceRev F_%s", fn)
			}
		}
		var sub []string
		for _, bs := range fs.Body.List {
			if e, ok := isPush(bs); ok && strings.HasPrefix(src(e), elem+".") {
				sub = append(sub, fmt.Sprintf("(F_%s, false)", strings.TrimPrefix(src(e), elem+".")))
				continue
			}
			if ifs, ok := bs.(*ast.IfStmt); ok && ifs.Else == nil && len(ifs.Body.List) == 1 {
				if e, ok := isPush(ifs.Body.List[0]); ok && strings.HasPrefix(src(e), elem+".") && src(ifs.Cond) == src(e)+" != nil" {
					sub = append(sub, fmt.Sprintf("(F_%s, true)", strings.TrimPrefix(src(e), elem+".")))
					continue
				}
			}
			fail("Walk %s: unrecognised loop body statement %s", tn, src(bs))
		}
		return fmt.Sprintf("P_SliceRevEach F_%s [%s]", fn, strings.Join(sub, "; "))
	}
	if rs, ok := s.(*ast.RangeStmt); ok && rs.Value != nil && len(rs.Body.List) == 1 {
		if e, ok := isPush(rs.Body.List[0]); ok && src(e) == src(rs.Value) {
			if fn, ok := recvField(rs.X, "n"); ok {
				return fmt.Sprintf("P_SliceFwd F_%s", fn)
			}
		}
	}
	fail("Walk %s: unrecognised statement %s", tn, src(s))
	return ""
}

func genCanAttach(o *out, pql *ast.File, nodeTypes map[string]bool) {
	fd := findFunc(pql, "", "canAttachSort")
	if len(fd.Body.List) != 1 {
		fail("canAttachSort: expected a single type switch")
	}
	sw, ok := fd.Body.List[0].(*ast.TypeSwitchStmt)
	if !ok {
		fail("canAttachSort: expected a type switch")
	}
	vals := map[string]bool{}
	def, hasDef := false, false
	for _, c := range sw.Body.List {
		cc := c.(*ast.CaseClause)
		if len(cc.Body) != 1 {
			fail("canAttachSort: case body")
		}
		ret, ok := cc.Body[0].(*ast.ReturnStmt)
		if !ok || len(ret.Results) != 1 {
			fail("canAttachSort: case body")
		}
		var v bool
		switch src(ret.Results[0]) {
		case "true":
			v = true
		case "false":
			v = false
		default:
			fail("canAttachSort: return %s", src(ret.Results[0]))
		}
		if cc.List == nil {
			def, hasDef = v, true
			continue
		}
		for _, te := range cc.List {
			if src(te) == "nil" {
				fail("canAttachSort: nil case")
			}
			tn := selName(te)
			if !nodeTypes[tn] {
				fail("canAttachSort: unknown type %s", tn)
			}
			vals[tn] = v
		}
	}
	if !hasDef {
		fail("canAttachSort: no default")
	}
	var names []string
	for n := range vals {
		names = append(names, n)
	}
	sort.Strings(names)
	o.p("(** pql.go [canAttachSort] (a nil operator takes the default branch). *)")
	o.p("Definition can_attach_sort_default : bool := %v.", def)
	o.p("Definition can_attach_sort (k : nkind) : bool :=")
	o.p("  match k with")
	for _, n := range names {
		o.p("  | N_%s => %v", n, vals[n])
	}
	o.p("  | _ => can_attach_sort_default")
	o.p("  end.")
	o.p("")
}

func genSplitConds(o *out, pql *ast.File) {
	fd := findFunc(pql, "", "splitQueries")
	var sw *ast.TypeSwitchStmt
	ast.Inspect(fd, func(n ast.Node) bool {
		if t, ok := n.(*ast.TypeSwitchStmt); ok && sw == nil {
			sw = t
		}
		return true
	})
	if sw == nil {
		fail("splitQueries: no type switch")
	}
	conds := map[string]string{}
	for _, c := range sw.Body.List {
		cc := c.(*ast.CaseClause)
		for _, te := range cc.List {
			tn := selName(te)
			if tn != "SortOperator" && tn != "TakeOperator" && tn != "TopOperator" {
				continue
			}
			if len(cc.Body) == 0 {
				fail("splitQueries %s: empty case", tn)
			}
			ifs, ok := cc.Body[0].(*ast.IfStmt)
			if !ok {
				fail("splitQueries %s: expected leading if", tn)
			}
			conds[tn] = boolExpr(ifs.Cond)
		}
	}
	o.p("(** pql.go [splitQueries]: the conditions under which sort / take / top open a new")
	o.p("    subquery instead of attaching to the last one. *)")
	o.p("Record split_state := { ss_nil : bool; ss_can_attach : bool; ss_has_sort : bool; ss_has_take : bool }.")
	for _, tn := range []string{"SortOperator", "TakeOperator", "TopOperator"} {
		c, ok := conds[tn]
		if !ok {
			fail("splitQueries: no case for %s", tn)
		}
		o.p("Definition split_cond_%s (s : split_state) : bool := %s.", strings.ToLower(strings.TrimSuffix(tn, "Operator")), c)
	}
	o.p("")
}

func boolExpr(e ast.Expr) string {
	switch t := e.(type) {
	case *ast.ParenExpr:
		return "(" + boolExpr(t.X) + ")"
	case *ast.UnaryExpr:
		if t.Op == token.NOT {
			return "negb (" + boolExpr(t.X) + ")"
		}
	case *ast.BinaryExpr:
		switch t.Op {
		case token.LOR:
			return "(" + boolExpr(t.X) + " || " + boolExpr(t.Y) + ")"
		case token.LAND:
			return "(" + boolExpr(t.X) + " && " + boolExpr(t.Y) + ")"
		case token.EQL, token.NEQ:
			if src(t.Y) == "nil" {
				var atom string
				switch src(t.X) {
				case "lastSubquery":
					atom = "ss_nil s"
				case "lastSubquery.sort":
					atom = "negb (ss_has_sort s)"
				case "lastSubquery.take":
					atom = "negb (ss_has_take s)"
				default:
					fail("split condition: comparison of %s with nil", src(t.X))
				}
				if t.Op == token.NEQ {
					return "negb (" + atom + ")"
				}
				return "(" + atom + ")"
			}
		}
	case *ast.CallExpr:
		if src(t) == "canAttachSort(lastSubquery.op)" {
			return "ss_can_attach s"
		}
	}
	fail("split condition: unrecognised expression %s", src(e))
	return ""
}

// ---------------------------------------------------------------- shared state

func genShared(o *out, repo string) {
	type site struct{ pkg, v, fn, how, guard string }
	var vars [][2]string
	var sites []site
	for _, pkg := range []struct{ name, dir string }{{"pql", "."}, {"parser", "parser"}, {"main", "cmd/pql"}} {
		ents, err := os.ReadDir(filepath.Join(repo, pkg.dir))
		if err != nil {
			fail("read %s: %v", pkg.dir, err)
		}
		var files []*ast.File
		for _, e := range ents {
			n := e.Name()
			if e.IsDir() || !strings.HasSuffix(n, ".go") || strings.HasSuffix(n, "_test.go") {
				continue
			}
			files = append(files, parseFile(filepath.Join(repo, pkg.dir, n)))
		}
		top := map[string]bool{}
		for _, f := range files {
			for _, d := range f.Decls {
				gd, ok := d.(*ast.GenDecl)
				if !ok || gd.Tok != token.VAR {
					continue
				}
				for _, sp := range gd.Specs {
					for _, n := range sp.(*ast.ValueSpec).Names {
						if n.Name != "_" {
							top[n.Name] = true
							vars = append(vars, [2]string{pkg.name, n.Name})
						}
					}
				}
			}
		}
		for _, f := range files {
			for _, d := range f.Decls {
				fd, ok := d.(*ast.FuncDecl)
				if !ok || fd.Body == nil {
					continue
				}
				fname := fd.Name.Name
				if fd.Recv != nil {
					fname = recvName(fd.Recv.List[0].Type) + "." + fname
				}
				shadow := localNames(fd)
				root := func(e ast.Expr) string {
					for {
						switch t := e.(type) {
						case *ast.SelectorExpr:
							e = t.X
						case *ast.IndexExpr:
							e = t.X
						case *ast.StarExpr:
							e = t.X
						case *ast.ParenExpr:
							e = t.X
						case *ast.Ident:
							if top[t.Name] && !shadow[t.Name] {
								return t.Name
							}
							return ""
						default:
							return ""
						}
					}
				}
				// guard of a site: "init" inside a package-level func init() (runs before any other code of
				// the program, on one goroutine), "once" inside a function literal handed to the Do method of
				// a package-level value (sync.Once), "" otherwise
				var stack []ast.Node
				guardOf := func() string {
					if fd.Recv == nil && fd.Name.Name == "init" {
						return "init"
					}
					for i := len(stack) - 1; i > 0; i-- {
						if _, isLit := stack[i].(*ast.FuncLit); isLit {
							if call, ok := stack[i-1].(*ast.CallExpr); ok {
								if se, ok := call.Fun.(*ast.SelectorExpr); ok && se.Sel.Name == "Do" && root(se.X) != "" {
									for _, a := range call.Args {
										if a == stack[i] {
											return "once"
										}
									}
								}
							}
						}
					}
					return ""
				}
				add := func(pkgName, v, fn, how string) {
					sites = append(sites, site{pkgName, v, fn, how, guardOf()})
				}
				_ = add
				ast.Inspect(fd.Body, func(n ast.Node) bool {
					if n == nil {
						stack = stack[:len(stack)-1]
						return true
					}
					stack = append(stack, n)
					switch t := n.(type) {
					case *ast.AssignStmt:
						for _, l := range t.Lhs {
							if v := root(l); v != "" {
								add(pkg.name, v, fname, "assign "+src(l))
							}
						}
					case *ast.IncDecStmt:
						if v := root(t.X); v != "" {
							add(pkg.name, v, fname, "incdec "+src(t.X))
						}
					case *ast.UnaryExpr:
						if t.Op == token.AND {
							if v := root(t.X); v != "" {
								add(pkg.name, v, fname, "addr "+src(t.X))
							}
						}
					case *ast.CallExpr:
						if id, ok := t.Fun.(*ast.Ident); ok && (id.Name == "delete" || id.Name == "clear") && len(t.Args) > 0 {
							if v := root(t.Args[0]); v != "" {
								add(pkg.name, v, fname, id.Name+" "+src(t.Args[0]))
							}
						}
						// method calls with pointer receivers on package state, other than sync.Once.Do
						if se, ok := t.Fun.(*ast.SelectorExpr); ok {
							if v := root(se.X); v != "" {
								if _, isSel := se.X.(*ast.Ident); !isSel || true {
									how := "call " + src(se)
									// the Do method of a package-level sync.Once is the guard itself, not a write
									if se.Sel.Name != "Do" {
										add(pkg.name, v, fname, how)
									}
								}
							}
						}
					}
					return true
				})
			}
		}
	}
	sort.Slice(vars, func(i, j int) bool { return vars[i][0]+vars[i][1] < vars[j][0]+vars[j][1] })
	o.p("(** Package-level variables of pql, parser and cmd/pql, and every syntactic site that")
	o.p("    may write one (assignment through it, ++/--, delete/clear, address-of, method call")
	o.p("    other than the Do of a package-level sync.Once), with the enclosing function and its guard:")
	o.p("    \"once\" = inside a function literal handed to such a Do, \"init\" = inside a package func init(). *)")
	o.p("Definition package_vars : list (str * str) := [")
	for i, v := range vars {
		sep := ";"
		if i == len(vars)-1 {
			sep = ""
		}
		o.p("  (%s, %s)%s (* %s.%s *)", coqStr(v[0]), coqStr(v[1]), sep, v[0], v[1])
	}
	o.p("].")
	o.p("Record write_site := { ws_pkg : str; ws_var : str; ws_func : str; ws_how : str; ws_guard : str }.")
	o.p("Definition write_sites : list write_site := [")
	for i, s := range sites {
		sep := ";"
		if i == len(sites)-1 {
			sep = ""
		}
		o.p("  {| ws_pkg := %s; ws_var := %s; ws_func := %s; ws_how := %s; ws_guard := %s |}%s (* %s.%s in %s: %s [%s] *)",
			coqStr(s.pkg), coqStr(s.v), coqStr(s.fn), coqStr(s.how), coqStr(s.guard), sep, s.pkg, s.v, s.fn, strings.ReplaceAll(s.how, "*)", "* )"), s.guard)
	}
	o.p("].")
	o.p("")
}

// localNames collects every identifier declared inside fd (params, :=, var, range),
// used conservatively as "shadowed" names.
func localNames(fd *ast.FuncDecl) map[string]bool {
	m := map[string]bool{}
	add := func(fl *ast.FieldList) {
		if fl == nil {
			return
		}
		for _, f := range fl.List {
			for _, n := range f.Names {
				m[n.Name] = true
			}
		}
	}
	add(fd.Recv)
	add(fd.Type.Params)
	add(fd.Type.Results)
	ast.Inspect(fd.Body, func(n ast.Node) bool {
		switch t := n.(type) {
		case *ast.AssignStmt:
			if t.Tok == token.DEFINE {
				for _, l := range t.Lhs {
					if id, ok := l.(*ast.Ident); ok {
						m[id.Name] = true
					}
				}
			}
		case *ast.ValueSpec:
			for _, n := range t.Names {
				m[n.Name] = true
			}
		case *ast.RangeStmt:
			if t.Tok == token.DEFINE {
				if id, ok := t.Key.(*ast.Ident); ok {
					m[id.Name] = true
				}
				if id, ok := t.Value.(*ast.Ident); ok {
					m[id.Name] = true
				}
			}
		case *ast.FuncLit:
			add(t.Type.Params)
		}
		return true
	})
	return m
}
