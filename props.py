"""Per-property configuration of ./check.

corr:   correspondence runs (generator family, stage, cases quick, cases thorough): the extracted
        Coq model and the implementation are run on the same inputs and compared line by line.
oracle: specification-side oracles evaluated on the implementation alone (stage names start
        with oracle-): the search for a concrete failing input.
oracle_for_stage: which oracles to try on an input where a correspondence broke.
"""

TRUSTED_BASE = [
 "Coq 8.16.1 kernel (coqc, full .vo build; vm_compute is used, native_compute is not)",
 "no axiom is declared anywhere in /verif/coq (grepped on every run); Print Assumptions per theorem is in print_assumptions",
 "translator /verif/gen (go/ast only): turns the table-like Go declarations into coq/Gen/*.v on every run and refuses unknown shapes",
 "extraction with ExtrOcamlBasic only (no Extract Constant / Extract Inductive of our own); OCaml 4.13.1 ocamlfind ocamlopt",
 "correspondence harness: Go generators and canonicalisers (/verif/harness), OCaml driver (/verif/ocaml/driver.ml)",
 "the hand-written Gallina model of lex.go, parser.go, ast.go Walk, pql.go and cmd/pql run is tied to the code by differential execution only",
 "Go runtime and standard library (utf8, unicode.IsSpace, strconv, strings.Builder, bufio.Scanner, sync.Once, errors.Join) are modelled from their documentation, not verified",
]

LEX_ORACLE_STAGES = {"scan": ["oracle-C09", "oracle-C15"], "split": ["oracle-C15"], "lit": ["oracle-C09"]}

PROPS = {
 "C09": dict(
   corr=[("bytes-exh-3", "scan", 0, 0), ("bytes-rand", "scan", 6000, 300000), ("semis", "scan", 3000, 150000),
         ("lit", "lit", 4000, 200000), ("lit", "scan", 4000, 200000)],
   thorough_corr=[("bytes-exh-4", "scan", 0, 0)],
   oracle=[("bytes-exh-3", "oracle-C09", 0, 0), ("bytes-rand", "oracle-C09", 6000, 300000),
           ("semis", "oracle-C09", 3000, 150000), ("lit", "oracle-C09", 4000, 200000), ("prog", "oracle-C09", 2000, 100000)],
   oracle_for_stage=LEX_ORACLE_STAGES,
   corpus=["lex.txt"], tables=["Gen/Tables.v: kind, kind_code, keywords"],
   assumptions=["Float64 is strconv.ParseFloat: its correctly rounded result is compared only where the value is exactly representable (oracle), not proved",
                "error-token message texts are not modelled"]),
 "C15": dict(
   corr=[("bytes-exh-3", "split", 0, 0), ("semis", "split", 5000, 250000), ("bytes-rand", "split", 4000, 200000),
         ("semis", "scan", 3000, 150000), ("prog", "parse", 2000, 100000), ("prog-mut", "parse", 2000, 100000), ("semis", "parse", 2000, 100000),
         ("script", "cli", 500, 25000)],
   oracle=[("script", "oracle-C16", 500, 25000), ("bytes-exh-3", "oracle-C15", 0, 0), ("semis", "oracle-C15", 5000, 250000),
           ("bytes-rand", "oracle-C15", 4000, 200000), ("prog", "oracle-C15", 2000, 100000), ("prog-mut", "oracle-C15", 2000, 100000)],
   oracle_for_stage=LEX_ORACLE_STAGES,
   corpus=["lex.txt"], tables=["Gen/Tables.v: kind, keywords"]),
 "C01": dict(
   corr=[("expr", "compile", 4000, 200000), ("prog", "compile", 2000, 100000), ("prog-params", "compile", 2000, 100000), ("lets", "compile", 1500, 75000),
         ("signs", "compile", 0, 0), ("joinconds", "compile", 0, 0), ("joins", "compile", 1000, 50000),
         ("expr", "glue", 3000, 150000), ("prog", "glue", 2000, 100000), ("signs", "glue", 0, 0), ("lets", "glue", 1500, 75000)],
   oracle=[("expr", "reread", 4000, 200000), ("prog", "reread", 2000, 100000), ("prog-params", "reread", 2000, 100000), ("lets", "reread", 1500, 75000),
           ("signs", "reread", 0, 0), ("joinconds", "reread", 0, 0), ("expr", "oracle-C12", 1500, 75000), ("lets", "oracle-C14", 500, 25000)],
   oracle_for_stage={"compile": ["reread"]},
   corpus=["compile.txt", "reserved.txt"], tables=["Gen/Tables.v: op_prec, binop_sql, known_funcs, writer_arity, writer_template, builtin_idents"]),
 "C02": dict(
   corr=[("pipes-exh-3", "compile", 0, 0), ("pipes", "compile", 3000, 150000), ("prog", "compile", 2000, 100000)],
   thorough_corr=[("pipes-exh-4", "compile", 0, 0)],
   oracle=[("pipes-exh-3", "reread", 0, 0), ("pipes", "reread", 3000, 150000), ("prog", "reread", 2000, 100000), ("pipes", "oracle-C13", 1500, 75000)],
   thorough_oracle=[("pipes-exh-4", "reread", 0, 0)],
   oracle_for_stage={"compile": ["reread"]},
   corpus=["compile.txt"], tables=["Gen/AstTables.v: can_attach_sort, split_cond_sort, split_cond_take, split_cond_top"],
   trusted_extra=["standard-library axiom FunctionalExtensionality.functional_extensionality_dep: used only by C02_pipeline, to identify the SQL and PQL expression evaluators once C01_meaning has shown them pointwise equal (C02_pipeline_generic is axiom-free)",
                  "specifications that define meaning: coq/Spec/Sem.v (values, SQL expression semantics), coq/Spec/PqlSem.v (PQL expression semantics), coq/Spec/PipeSem.v (operators, pipeline interpreter, SELECT = source; operator; ORDER BY; LIMIT; later subqueries see earlier ones by name, order preserved)"],
   assumptions=["order-preserving reading of subqueries (a CTE keeps its row order when read by the next SELECT) is an assumption about the target dialect",
                "the theorem is stated on the structured subqueries of the model; that the emitted text denotes them is tied by byte-exact correspondence of the rendering"]),
 "C05": dict(
   corr=[("prog", "compile", 3000, 150000), ("prog-mut", "compile", 3000, 150000), ("pipes", "compile", 1500, 75000), ("joins", "compile", 1500, 75000),
         ("prog", "glue", 3000, 150000), ("prog-mut", "glue", 3000, 150000), ("pipes", "glue", 1500, 75000), ("joins", "glue", 1500, 75000), ("prog-hostile", "glue", 2000, 100000)],
   oracle=[("prog", "reread", 3000, 150000), ("prog-mut", "reread", 3000, 150000), ("pipes", "reread", 1500, 75000), ("joins", "reread", 1500, 75000),
           ("prog-mut", "oracle-C13", 1500, 75000)],
   oracle_for_stage={"compile": ["reread"]},
   corpus=["compile.txt", "reserved.txt"], tables=["Gen/Tables.v: op_prec, binop_sql, join_types"]),
 "C06": dict(
   corr=[("lets", "compile", 4000, 200000), ("prog-params", "compile", 3000, 150000), ("signs", "compile", 0, 0), ("joinconds", "compile", 0, 0)],
   oracle=[("lets", "reread", 4000, 200000), ("prog-params", "reread", 3000, 150000), ("signs", "reread", 0, 0), ("joinconds", "reread", 0, 0),
           ("lets", "oracle-C13", 2000, 100000), ("lets", "oracle-C14", 500, 25000)],
   oracle_for_stage={"compile": ["reread"]},
   corpus=["compile.txt"], tables=["Gen/Tables.v: builtin_idents"]),
 "C07": dict(
   corr=[("prog", "parse", 4000, 200000), ("expr", "parse", 3000, 150000), ("prog-flat", "parse", 2000, 100000), ("pipes", "parse", 1500, 75000), ("joins", "parse", 1500, 75000),
         ("prog", "gram", 4000, 200000), ("expr", "gram", 3000, 150000), ("prog-mut", "gram", 4000, 200000), ("joins", "gram", 1500, 75000), ("bytes-rand", "gram", 3000, 150000), ("bytes-exh-3", "gram", 0, 0), ("deep", "gram", 200, 10000), ("dangle", "parse", 0, 0), ("dangle", "gram", 0, 0)],
   oracle=[("dangle", "oracle-C07", 0, 0), ("expr", "oracle-C07", 3000, 150000), ("prog", "oracle-C07", 2000, 100000), ("prog-mut", "oracle-C07", 2000, 100000), ("joins", "oracle-C07", 1000, 50000)],
   oracle_for_stage={"parse": ["oracle-C07", "oracle-C08"]},
   corpus=["parse.txt"], tables=["Gen/Tables.v: op_prec, keywords, join_types"]),
 "C08": dict(
   corr=[("prog-mut", "parse", 6000, 300000), ("bytes-rand", "parse", 3000, 150000), ("prog", "parse", 2000, 100000), ("bytes-exh-3", "parse", 0, 0), ("deep", "parse", 200, 10000), ("eof", "parse", 600, 15000), ("eof", "scan", 600, 15000), ("dangle", "parse", 0, 0)],
   oracle=[("dangle", "oracle-C08", 0, 0), ("prog-mut", "oracle-C08", 6000, 300000), ("prog", "oracle-C08", 3000, 150000), ("prog-hostile", "oracle-C08", 2000, 100000), ("bytes-rand", "oracle-C08", 2000, 100000), ("eof", "oracle-C08", 600, 15000)],
   oracle_for_stage={"parse": ["oracle-C08", "oracle-C07"]},
   corpus=["parse.txt"], tables=["Gen/Tables.v: op_prec"]),
 "C10": dict(
   corr=[("prog", "spans", 4000, 200000), ("prog", "parse", 3000, 150000), ("prog-mut", "parse", 3000, 150000), ("prog-hostile", "spans", 1500, 75000), ("joins", "spans", 1000, 50000),
         ("prog", "compile", 4000, 200000), ("prog-mut", "compile", 2000, 100000),
         ("eof", "parse", 600, 15000), ("eof", "spans", 600, 15000), ("lit", "scan", 2000, 100000), ("dangle", "spans", 0, 0)],
   oracle=[("eof", "oracle-C10", 600, 15000), ("prog", "oracle-C10", 4000, 200000), ("prog-mut", "oracle-C10", 3000, 150000), ("prog-hostile", "oracle-C10", 1500, 75000), ("bytes-rand", "oracle-C10", 1500, 75000)],
   oracle_for_stage={"parse": ["oracle-C10"], "spans": ["oracle-C10"], "compile": ["oracle-C10"]},
   corpus=["parse.txt"], tables=["Gen/AstTables.v: ast_fields, span_parts"],
   assumptions=["spans inside the partial trees returned with a parse error are checked on the implementation only (the model builds no partial trees)"]),
 "C11": dict(
   corr=[("walk", "walk", 6000, 300000), ("walk-mut", "walk", 4000, 200000), ("eof", "walk", 600, 15000)],
   oracle=[("walk", "oracle-C11", 6000, 300000), ("walk-mut", "oracle-C11", 4000, 200000), ("eof", "oracle-C11", 600, 15000)],
   oracle_for_stage={"walk": ["oracle-C11"]},
   corpus=["walk.txt"], tables=["Gen/AstTables.v: walk_children, ast_fields"]),
 "C12": dict(
   corr=[("bytes-rand", "scan", 2000, 100000, "status"), ("bytes-rand", "parse", 3000, 150000, "status"), ("prog-mut", "compile", 3000, 150000, "status"),
         ("deep", "compile", 300, 15000, "status"), ("deep", "parse", 300, 15000, "status"), ("walk", "walk", 2000, 100000, "status"), ("prog-params", "compile", 1500, 75000, "status"), ("wide", "compile", 16, 60, "status"), ("pipes", "compile", 2500, 100000, "status")],
   oracle=[("wide", "oracle-C12", 16, 60), ("pipes", "oracle-C12", 2500, 100000), ("bytes-rand", "oracle-C12", 3000, 150000), ("prog-mut", "oracle-C12", 3000, 150000), ("deep", "oracle-C12", 300, 15000), ("prog-params", "oracle-C12", 1500, 75000), ("bytes-exh-3", "oracle-C12", 0, 0), ("letchain", "oracle-C12-growth", 20, 100)],
   corpus=["parse.txt", "lex.txt", "compile.txt"], tables=["Gen/AstTables.v: walk_children"],
   assumptions=["wall-clock time, Go stack growth and allocation are observed by the harness watchdog (5 s per call), not proved"]),
 "C13": dict(
   corr=[("rules", "compile", 5000, 250000, "status"), ("prog-mut", "compile", 3000, 150000, "status"), ("prog-params", "compile", 2000, 100000, "status"), ("lets", "compile", 1500, 75000, "status"), ("wide", "compile", 16, 60, "status")],
   oracle=[("lets", "oracle-C14", 500, 25000), ("wide", "oracle-C13", 16, 60), ("rules", "oracle-C13", 5000, 250000), ("prog-mut", "oracle-C13", 3000, 150000), ("prog-params", "oracle-C13", 2000, 100000), ("lets", "oracle-C13", 1500, 75000), ("bytes-rand", "oracle-C13", 1500, 75000)],
   oracle_for_stage={"compile": ["oracle-C13"]},
   corpus=["compile.txt"], tables=["Gen/Tables.v: known_funcs, writer_arity, join_types"]),
 "C14": dict(
   corr=[("prog-params", "compile", 3000, 150000), ("lets", "compile", 1500, 75000)],
   oracle=[("prog-params", "oracle-C14", 1500, 75000), ("lets", "oracle-C14", 1500, 75000), ("prog-mut", "oracle-C14", 1000, 50000)],
   race=True,
   repeat=[("rules", "resulttext", 150, 3000, 12), ("lets", "resulttext", 400, 6000, 12), ("prog-params", "resulttext", 150, 3000, 12)],
   corpus=["compile.txt"], tables=["Gen/Shared.v: package_vars, write_sites"],
   assumptions=["absence of data races under the Go memory model is observed with the race detector (harness built with -race for the C14 oracle), not proved; sync.Once's contract is trusted"]),
 "C16": dict(
   corr=[("script", "cli", 2500, 125000)],
   oracle=[("script", "oracle-C16", 2500, 125000)],
   oracle_for_stage={"cli": ["oracle-C16"]},
   corpus=["cli.txt"], tables=[],
   assumptions=["OS-level I/O (partial writes, signals, terminal detection, file-system errors other than a missing file) is outside the model",
                "bufio.Scanner's line splitting and 64 KiB limit are modelled in events_of (coq/Model/Show.v) and tied by correspondence"]),
 "C04": dict(
   corr=[("prog-hostile", "compile", 6000, 300000), ("prog-hostile", "scan", 2000, 100000), ("lit", "scan", 2000, 100000), ("prog-hostile", "parse", 2000, 100000),
         ("prog-hostile", "glue", 6000, 300000), ("prog", "glue", 2000, 100000)],
   oracle=[("prog-hostile", "reread", 6000, 300000), ("prog-hostile", "oracle-C09", 2000, 100000)],
   oracle_for_stage={"compile": ["reread"]},
   corpus=["compile.txt"], tables=[]),
 "C03": dict(
   corr=[("joins", "compile", 5000, 250000), ("joinconds", "compile", 0, 0), ("prog", "compile", 2000, 100000), ("joins", "parse", 1500, 75000)],
   oracle=[("joins", "reread", 5000, 250000), ("joinconds", "reread", 0, 0), ("prog", "reread", 2000, 100000),
           ("joins", "oracle-C13", 2000, 100000), ("joins", "oracle-C12", 1000, 50000)],
   oracle_for_stage={"compile": ["reread"]},
   corpus=["compile.txt"], tables=["Gen/Tables.v: join_types, builtin_idents", "Gen/AstTables.v: can_attach_sort, split_cond_*"],
   trusted_extra=["standard-library axiom FunctionalExtensionality.functional_extensionality_dep: used only by C03_joins, to identify the SQL and PQL expression evaluators (C03_joins_generic is axiom-free)",
                  "specifications that define meaning: coq/Spec/PipeSem.v (join_rows, run_pipeline, eval_statement), coq/Spec/Sem.v, coq/Spec/PqlSem.v"],
   assumptions=["naming condition ok: table names and `as` names are not of the generated shape __subquery..., `as` names pairwise different and different from table names (the generator also emits programs outside it; they are covered by correspondence only)",
                "order-preserving reading of subqueries is an assumption about the target dialect"]),
}
