"""Per-property configuration of ./check.

corr:   correspondence runs (generator family, stage, cases quick, cases thorough): the extracted
        Coq model and the implementation are run on the same inputs and compared line by line.
oracle: specification-side oracles evaluated on the implementation alone (stage names start
        with oracle-): the search for a concrete failing input.
oracle_for_stage: which oracles to try on an input where a correspondence broke.
"""

TRUSTED_BASE = [
 "Coq 8.16.1 kernel (coqc, full .vo build; vm_compute is used, native_compute is not)",
 "no axiom is declared anywhere in /verif/coq (grepped on every run); Print Assumptions per theorem is in print_assumptions",
 "translator /verif/gen (go/ast only): turns the table-like Go declarations into coq/Gen/*.v on every run and refuses unknown shapes",
 "extraction with ExtrOcamlBasic only (no Extract Constant / Extract Inductive of our own); OCaml 4.13.1 ocamlfind ocamlopt",
 "correspondence harness: Go generators and canonicalisers (/verif/harness), OCaml driver (/verif/ocaml/driver.ml)",
 "the hand-written Gallina model of lex.go, parser.go, ast.go Walk, pql.go and cmd/pql run is tied to the code by differential execution only",
 "Go runtime and standard library (utf8, unicode.IsSpace, strconv, strings.Builder, bufio.Scanner, sync.Once, errors.Join) are modelled from their documentation, not verified",
]

LEX_ORACLE_STAGES = {"scan": ["oracle-C09", "oracle-C15"], "split": ["oracle-C15"], "lit": ["oracle-C09"]}

PROPS = {
 "C09": dict(
   corr=[("bytes-exh-3", "scan", 0, 0), ("bytes-rand", "scan", 6000, 60000), ("semis", "scan", 3000, 30000),
         ("lit", "lit", 4000, 40000), ("lit", "scan", 4000, 40000)],
   thorough_corr=[("bytes-exh-4", "scan", 0, 0)],
   oracle=[("bytes-exh-3", "oracle-C09", 0, 0), ("bytes-rand", "oracle-C09", 6000, 60000),
           ("semis", "oracle-C09", 3000, 30000), ("lit", "oracle-C09", 4000, 40000), ("prog", "oracle-C09", 2000, 20000)],
   oracle_for_stage=LEX_ORACLE_STAGES,
   corpus=["lex.txt"], tables=["Gen/Tables.v: kind, kind_code, keywords"],
   assumptions=["Float64 is strconv.ParseFloat: its correctly rounded result is compared only where the value is exactly representable (oracle), not proved",
                "error-token message texts are not modelled"]),
 "C15": dict(
   corr=[("bytes-exh-3", "split", 0, 0), ("semis", "split", 5000, 50000), ("bytes-rand", "split", 4000, 40000),
         ("semis", "scan", 3000, 30000), ("prog", "parse", 2000, 20000)],
   oracle=[("bytes-exh-3", "oracle-C15", 0, 0), ("semis", "oracle-C15", 5000, 50000),
           ("bytes-rand", "oracle-C15", 4000, 40000), ("prog", "oracle-C15", 2000, 20000), ("prog-mut", "oracle-C15", 2000, 20000)],
   oracle_for_stage=LEX_ORACLE_STAGES,
   corpus=["lex.txt"], tables=["Gen/Tables.v: kind, keywords"]),
}
